"""C14 storage orders follow their published curves (layers over identity<size1>)."""
import os
from vplib import core
from vplib.core import Job, VERIF

SRC = os.path.join(VERIF, "harness/c14_curves.cpp")
BUILDS = [("assert_nobmi", ["-O1", "-w"]), ("assert_bmi2", ["-O1", "-w", "-mbmi2"]),
          ("ndebug_nobmi", ["-O2", "-w", "-DNDEBUG"]), ("ndebug_bmi2", ["-O2", "-w", "-DNDEBUG", "-mbmi2"])]
RUNS = [("rowmajor", n) for n in (1, 2, 3, 4)] + [("morton", n) for n in (1, 2, 3, 4)] + [("hilbert", 2)]


def run(ctx):
    # one binary per build configuration, nine runs each
    bins = {}
    def comp(b):
        exe = os.path.join(ctx.build, "c14_" + b[0])
        ok, log = ctx.compile(SRC, exe, b[1])
        return b[0], exe, ok, log
    for name, exe, ok, log in ctx.parallel(comp, BUILDS):
        if not ok:
            ctx.violation("compile:" + name, "curve harness does not compile: " + core.first_diag(log),
                          {"src": "harness/c14_curves.cpp", "flags": dict(BUILDS)[name], "compile_log": log[-3000:]})
        else:
            bins[name] = exe
    total = {}
    work = [(b, w, n) for b in bins for (w, n) in RUNS]
    def runit(x):
        b, w, n = x
        rc, so, se = ctx.run([bins[b], w, str(n), ctx.tier], timeout=1200)
        return x, rc, so, se
    for (b, w, n), rc, so, se in ctx.parallel(runit, work):
        rb = {"src": "harness/c14_curves.cpp", "flags": dict(BUILDS)[b], "argv": [w, str(n), ctx.tier], "job": "c14_" + b}
        st = ctx.harvest(so, rb)
        if b != BUILDS[0][0]:
            st["distinct_nontrivial"] = 0   # the other builds repeat the same cases
        core.merge_stats(total, {k: v for k, v in st.items() if k != "groups"})
        total.setdefault("groups", {})["%s/%s/N%d" % (b, w, n)] = list(st.get("groups", {}).values())[0] if st.get("groups") else {}
        if rc != 0:
            rb["stderr_tail"] = se[-2000:]
            ctx.violation("crash:%s:%s:N%d" % (b, w, n), "harness exit %s: %s" % (rc, core.sanitizer_summary(se)), rb)
    # the four builds must agree on every observation digest
    for (w, n) in RUNS:
        ds = {b: total["groups"].get("%s/%s/N%d" % (b, w, n), {}).get("digest") for b in bins}
        if len(set(ds.values())) > 1:
            ctx.violation("digest:%s:N%d" % (w, n), "build configurations disagree on the positions returned: %s" % ds, {"digests": ds})
    core.set_generic_cov(
        ctx, total,
        "row-major: every extent vector <= B_N x every coordinate, plus large boundary extents {1,2^k-1,2^k,2^k+1} x per-axis {0,1,mid,ext-2,ext-1}; "
        "Morton: every coordinate below 2^b per axis (b per N in exhaustive_bits_per_axis) plus the closed bit-pattern alphabet {0,1,2^k,2^k+-1,all-ones}^N up to 2^floor(64/N), "
        "both implementations vs an independent bit interleave; Hilbert: every cell of the 2^k x 2^k square for all k <= hilbert_max_k (bijection onto [0,4^k), origin, edge adjacency); "
        "each under 4 builds {assert,NDEBUG}x{-mbmi2,none}; distinct_nontrivial counts distinct (extent vector) resp. (coordinate) cases of ONE build (the other three repeat them)",
        {"builds": [b[0] for b in BUILDS]})
    ctx.assumptions += ["positions observed through the public API over identity<size1>", "no random tail beyond the stated alphabets"]


def replay(ctx, rp):
    return core.generic_replay(ctx, rp)
