"""C06 dump + load reproduces a field exactly (typed oracle per stack, bit patterns, configuration alphabets)."""
import os
from vplib import core, iogen
from vplib.core import VERIF

MAIN = os.path.join(VERIF, "harness/io_main.cpp")
FLAGS_ASAN = ["-O1", "-w", "-mbmi2", "-fsanitize=address,undefined", "-fno-sanitize-recover=undefined"]
FLAGS_O2 = ["-O2", "-w", "-mbmi2", "-DNDEBUG"]


def build(ctx, name, flags):
    stacks = iogen.catalogue(ctx.tier)
    from vplib import grammar as g
    stacks, _over = g.filter_by_real_view_size(ctx, stacks, iogen.HDR_IO)
    exe, bad = iogen.build_binary(ctx, stacks, MAIN, flags, name)
    if exe is None:
        for p, log in bad:
            ctx.violation("compile:" + os.path.basename(str(p)), "an IO harness unit does not compile against the tree: " + core.first_diag(log), {"compile_log": log[-3000:], "file": str(p)})
    return exe, stacks


def run_mode(ctx, exe, argv, tag, timeout=1500, runner=None, env=None):
    e = dict(core.SAN_ENV)
    if env:
        e.update(env)
    rc, so, se = ctx.run((runner or []) + [exe] + [str(a) for a in argv], timeout=timeout, env=e)
    rb = {"argv": [str(a) for a in argv], "tag": tag}
    st = ctx.harvest(so, rb)
    if rc == -999:
        ctx.violation("timeout:" + tag, "IO harness did not finish in %ss" % timeout, rb)
    elif rc != 0:
        rb["stderr_tail"] = se[-3000:]
        ctx.violation("crash:" + tag, "IO harness exited with status %s: %s" % (rc, core.sanitizer_summary(se)), rb)
    return st


def run(ctx):
    exe, stacks = build(ctx, "asan", FLAGS_ASAN)
    exe2, _ = build(ctx, "o2", FLAGS_O2)
    total = {}
    if exe:
        total = run_mode(ctx, exe, ["roundtrip", ctx.tier], "roundtrip_asan")
    if exe2:
        st2 = run_mode(ctx, exe2, ["roundtrip", ctx.tier], "roundtrip_ndebug")
        d1 = list(total.get("groups", {}).values())
        d2 = list(st2.get("groups", {}).values())
        if d1 and d2 and d1[0].get("digest") != d2[0].get("digest"):
            ctx.violation("digest", "assert-enabled and NDEBUG builds disagree", {})
    ctx.level = "model_checking"
    ctx.cov.update({
        "states": int(total.get("states", 0)), "transitions": int(total.get("transitions", 0)), "traces_validated_against_impl": int(total.get("evaluations", 0)),
        "evaluations": int(total.get("evaluations", 0)), "distinct_nontrivial": int(total.get("distinct_nontrivial", 0)),
        "catalogue_stacks": len(stacks), "samples": [iogen.stack_id(s) for s in stacks[::max(1, len(stacks) // 6)]][:8],
        "rule": "serialisable catalogue = pairwise layer-adjacency cover of the grammar without harness backends (quick: 7 (N,M) pairs; thorough: all 16 plus every stack to depth 3), every layer and adjacency present; per stack up to six configuration variants "
                "(ordinary; signed zeros / infinities / NaN / denormals / type extremes in every configuration blob; 1-cell extents; empty field; a payload of several KiB; Morton / Hilbert storage cut off right after the largest reachable curve position) x stored bit patterns (+-0, subnormals, +-1, 1+ulp, +-MAX, +-inf, quiet and signalling NaNs with payloads) as all-cells rotations and "
                "placed at every scalar position in turn (quick: the first six positions); states = distinct byte streams produced; transitions = dump / parse / load / re-dump steps; oracle: E7 automaton accepts the dump and consumes it entirely, "
                "every layer's reloaded configuration is bit-identical field by field, every stored scalar bit-identical (flat cells, and looked up through the storage order's view at every lattice coordinate), re-dump byte-identical, load consumes exactly the dump; ASan/UBSan build and NDEBUG build",
    })
    ctx.assumptions += ["x86-64 SSE moves preserve NaN payloads", "little-endian host"]


def replay(ctx, rp):
    exe, _ = build(ctx, "asan", FLAGS_ASAN)
    if not exe:
        return 1
    r = rp.get("replay", {})
    case = (r.get("case") or "").split(" ")[0]
    st = run_mode(ctx, exe, r.get("argv", ["roundtrip", "quick"]), "replay", env={"VP_ONLY_CASE": case})
    for v in ctx.violations:
        print("REPLAYED VIOLATION key=%s :: %s" % (v.key, v.detail))
    return 1 if ctx.violations else 0
