"""C16 concurrent lookups are race-free and deterministic: cooperative scheduler + exhaustive / preemption-bounded schedule enumeration; free-running TSan pass."""
import os, re, subprocess
from vplib import core
from vplib.core import Job, VERIF
SRC = os.path.join(VERIF, "harness/c16_concurrent.cpp")
LAYERS = [("L_strided", []), ("L_morton_port", []), ("L_morton_bmi", ["-mbmi2"]), ("L_hilbert", [])]

INVENTORY = r'''
#include <covfie/core/field.hpp>
#include <covfie/core/backend/primitive/array.hpp>
#include <covfie/core/backend/primitive/constant.hpp>
#include <covfie/core/backend/primitive/identity.hpp>
#include <covfie/core/backend/transformer/affine.hpp>
#include <covfie/core/backend/transformer/backup.hpp>
#include <covfie/core/backend/transformer/clamp.hpp>
#include <covfie/core/backend/transformer/covariant_cast.hpp>
#include <covfie/core/backend/transformer/dereference.hpp>
#include <covfie/core/backend/transformer/hilbert.hpp>
#include <covfie/core/backend/transformer/linear.hpp>
#include <covfie/core/backend/transformer/morton.hpp>
#include <covfie/core/backend/transformer/nearest_neighbour.hpp>
#include <covfie/core/backend/transformer/shuffle.hpp>
#include <covfie/core/backend/transformer/strided.hpp>
using namespace covfie; using namespace covfie::backend;
template <class B> float probe(typename B::contravariant_input_t::vector_t c) {
    field<B> f; field_view<B> v(f); auto r = v.at(c); return static_cast<float>(r[0]);
}
using A3 = covfie::backend::array<vector::float3>;
template float probe<affine<linear<clamp<strided<vector::size3, A3>>>>>(covfie::array::array<float,3>);
template float probe<affine<nearest_neighbour<backup<morton<vector::size3, A3, false>>>>>(covfie::array::array<float,3>);
template float probe<nearest_neighbour<morton<vector::size3, A3, true>>>(covfie::array::array<float,3>);
template float probe<linear<hilbert<vector::size2, covfie::backend::array<vector::float2>>>>(covfie::array::array<float,2>);
template float probe<shuffle<covariant_cast<float, dereference<strided<vector::size2, covfie::backend::array<vector::double2>>>>, std::index_sequence<1,0>>>(covfie::array::array<std::size_t,2>);
template float probe<constant<vector::float2, vector::float3>>(covfie::array::array<float,2>);
template float probe<identity<vector::float3>>(covfie::array::array<float,3>);
'''


def inventory(ctx):
    src = os.path.join(ctx.build, "inventory.cpp")
    obj = os.path.join(ctx.build, "inventory.o")
    with open(src, "w") as fh:
        fh.write(INVENTORY)
    ok, log = ctx.compile(src, obj, ["-O0", "-w", "-c", "-mbmi2"])
    if not ok:
        ctx.violation("compile:inventory", "the all-layers translation unit does not compile: " + core.first_diag(log), {"compile_log": log[-2000:]})
        return None
    out = subprocess.run(["nm", "-C", obj], capture_output=True, text=True).stdout
    writable = []
    for line in out.splitlines():
        m = re.match(r"^[0-9a-f]*\s+([bBdDuUvV])\s+(.*)$", line)
        if m and m.group(1) in "bBdD" and "covfie::" in m.group(2):
            writable.append(m.group(2))
        elif m and m.group(1) in "uv" and "covfie::" in m.group(2) and "guard variable" not in m.group(2) and "typeinfo" not in m.group(2) and "vtable" not in m.group(2):
            writable.append(m.group(2))
    tls = [l for l in subprocess.run(["nm", "-C", obj], capture_output=True, text=True).stdout.splitlines() if "covfie::" in l and "TLS" in l]
    return {"writable_or_unique_data_symbols_in_covfie": writable, "tls": tls, "symbols_scanned": len(out.splitlines())}


def scheduler_model(ctx):
    """Spin verification of the hand-off protocol of include/vp/sched.hpp (models/sched.pml): at most one thread in hook-visible
    code, no deadlock, all workers finish. A failure here is a fault of the machinery, not of covfie."""
    import shutil
    d = os.path.join(ctx.build, "spin")
    os.makedirs(d, exist_ok=True)
    shutil.copy(os.path.join(VERIF, "models/sched.pml"), d)
    out = {}
    for tag, define in (("guarded", []), ("without_tl_busy_guard", ["-DNOBUSY"])):
        r = subprocess.run(["spin", "-a"] + define + ["sched.pml"], cwd=d, capture_output=True, text=True)
        c = subprocess.run(["gcc", "-O2", "-DSAFETY", "-o", "pan_" + tag, "pan.c"], cwd=d, capture_output=True, text=True)
        if r.returncode or c.returncode:
            return {"error": (r.stdout + r.stderr + c.stderr)[-300:]}
        v = subprocess.run(["./pan_" + tag, "-m100000"], cwd=d, capture_output=True, text=True).stdout
        m = re.search(r"errors: (\d+)", v)
        st = re.search(r"(\d+) states, stored", v)
        out[tag] = {"errors": int(m.group(1)) if m else -1, "states": int(st.group(1)) if st else 0}
    return out


def run(ctx):
    thorough = ctx.tier == "thorough"
    inv = inventory(ctx)
    model = scheduler_model(ctx)
    if "error" in model or model["guarded"]["errors"] != 0 or model["without_tl_busy_guard"]["errors"] < 1:
        raise RuntimeError("scheduler protocol model does not verify as expected: %r" % (model,))
    js = []
    bound, cap = (3, 400000) if thorough else (2, 60000)
    for layer, extra in LAYERS:
        for n in ((2,) if layer == "L_hilbert" else (1, 2, 3)):
            for interp in ("direct", "nn", "linear", "clamp", "affine_nn", "backup"):
                js.append(Job("explore_%s_%s_N%d" % (layer, interp, n), SRC, ["-O1", "-w", "-pthread"] + extra, ["VP_LAYER=" + layer], ["explore", bound, cap, ctx.tier, "/%s/N%d/" % (interp, n)], timeout=1500,
                              key_prefix="explore_%s_%s_N%d" % (layer, interp, n)))
    js.append(Job("explore_L_strided_linear_N4", SRC, ["-O1", "-w", "-pthread"], ["VP_LAYER=L_strided"], ["explore", bound, cap, ctx.tier, "/linear/N4/"], timeout=1500, key_prefix="explore_L_strided_linear_N4"))
    # function-granular exploration: every entry into a covfie function is a scheduling point as well (-finstrument-functions)
    FN = ["-O0", "-w", "-pthread", "-DVP_FN_POINTS", "-finstrument-functions", "-finstrument-functions-exclude-file-list=include/vp,harness/,/usr/"]
    for layer, extra in LAYERS:
        for n in ((2,) if layer == "L_hilbert" else (1, 2)):
            for interp in ("direct", "nn", "linear", "clamp", "affine_nn", "backup"):
                if interp == "linear" and not thorough:
                    continue   # one linear lookup has ~130 function entries; bound 2 over it is a thorough-tier item
                if not thorough and n == 1 and layer != "L_hilbert":
                    continue   # quick: the 2-D configurations only
                if not thorough and interp in ("clamp", "affine_nn", "backup") and layer.startswith("L_morton"):
                    continue   # quick: wrapper kinds over row-major and Hilbert only (a Morton lookup has 3x the function entries)
                js.append(Job("explorefn_%s_%s_N%d" % (layer, interp, n), SRC, FN + extra, ["VP_LAYER=" + layer], ["explore_fn", 2, cap, ctx.tier, "/%s/N%d/" % (interp, n)], timeout=1500,
                              key_prefix="explorefn_%s_%s_N%d" % (layer, interp, n)))
    # cold-start exploration: every schedule in a freshly forked child (statics / lazily built tables in their initial state),
    # scheduling points at every basic block of covfie code (-fsanitize-coverage=trace-pc)
    BB = ["-O1", "-w", "-pthread", "-rdynamic", "-DVP_BB_POINTS", "-fsanitize-coverage=trace-pc"]
    cold_bound, cold_cap = (2, 40000) if thorough else (1, 5000)
    for layer, extra in LAYERS:
        for n in ((2,) if layer == "L_hilbert" else (1, 2)):
            js.append(Job("explorecold_%s_N%d" % (layer, n), SRC, BB + extra, ["VP_LAYER=" + layer], ["explore_cold", cold_bound, cold_cap, ctx.tier, "/N%d/" % n], timeout=1500,
                          key_prefix="explorecold_%s_N%d" % (layer, n)))
    for layer, extra in LAYERS:
        for which in (("N2",) if layer == "L_hilbert" else ("N1", "N2", "N3")):
            for T in ((4, 16) if thorough else (8,)):
                js.append(Job("tsancold_%s_%s_T%d" % (layer, which, T), SRC, ["-O1", "-g", "-w", "-pthread", "-fsanitize=thread"] + extra, ["VP_LAYER=" + layer], ["free_cold", T, which], timeout=900,
                              env={"TSAN_OPTIONS": "halt_on_error=1:exitcode=66:report_signal_unsafe=0"}, key_prefix="tsancold_" + layer, distinct=False))
    for layer, extra in LAYERS:
        for T in ((2, 3, 8, 16) if thorough else (2, 8)):
            js.append(Job("tsan_%s_T%d" % (layer, T), SRC, ["-O1", "-g", "-w", "-pthread", "-fsanitize=thread"] + extra, ["VP_LAYER=" + layer], ["free", T], timeout=900,
                          env={"TSAN_OPTIONS": "halt_on_error=1:exitcode=66:report_signal_unsafe=0"}, key_prefix="tsan_" + layer, distinct=False))
    # compile each distinct (src, flags, defines) once: the tsan jobs of one layer share a binary
    for j in js:
        if j.name.startswith("explore"):
            j.env = dict(j.env or {}, VP_CONFIG_BUDGET_S="150" if thorough else "75")
    total = core.build_and_run(ctx, js)
    ex = {k: v for k, v in total.items()}
    scheds = int(sum(j.stats.get("traces", 0) for j in js if j.name.startswith("explore") and j.stats))
    points = int(sum(j.stats.get("transitions", 0) for j in js if j.name.startswith("explore") and j.stats))
    fn_scheds = int(sum(j.stats.get("traces", 0) for j in js if j.name.startswith("explorefn_") and j.stats))
    cold_scheds = int(sum(j.stats.get("traces", 0) for j in js if j.name.startswith("explorecold_") and j.stats))
    capped = int(sum(j.stats.get("configs_capped", 0) for j in js if j.stats))
    capped_names = []
    import json as _json
    for j in js:
        for line in (j.stdout or "").splitlines():
            if line.startswith("STAT "):
                try:
                    for smp in _json.loads(line[5:]).get("samples", []):
                        if "CAPPED" in smp:
                            capped_names.append(smp)
                except Exception:
                    pass
    if capped:
        ctx.capped = True
    ctx.level = "model_checking"
    samples = []
    for j in js:
        if j.name.startswith("explore"):
            samples += j.stats.get("samples", [])[:2]
    ctx.cov.update({
        "states": scheds, "transitions": points, "traces_validated_against_impl": scheds, "schedules": scheds, "scheduling_points": points,
        "evaluations": scheds, "distinct_nontrivial": int(total.get("distinct_nontrivial", 0)),
        "distinct_outcomes_per_program_max": total.get("distinct_outcomes_max"),
        "configs_capped_at_max_schedules": capped, "capped_configs": capped_names[:40],
        "completed_bounds": "every configuration not listed under capped_configs was enumerated completely within its stated preemption bound", "preemption_bound": bound, "max_schedules_per_config": cap,
        "samples": samples[:12] or ["(none)"],
        "rule": "real pthreads under a cooperative futex hand-off scheduler (exactly one runnable thread); scheduling point = every storage access of the probe backend (hook runs before the access) + one final segment per thread; "
                "per (layer in strided/morton portable/morton BMI2/hilbert, interpolation / wrapper in direct/nn/linear/clamp/affine-over-nn/backup (out-of-range default; its writers own border cells of the region and write them through the storage view beneath), N in 1..3, program, shared or per-thread views): ALL interleavings for the 2-thread programs "
                "(e.g. C(18,9)=48620 for two 3-D linear lookups), preemption bound %d for the 3-thread programs (3 readers x 2 lookups; 2 readers + 1 writer storing to cells nobody else touches); every schedule runs to completion; "
                "oracle per schedule: per-thread results == sequential run, final storage == sequential, no cell written by one thread and accessed by another, no out-of-bounds index; violating schedules are replayed twice before being reported; "
                "a second exploration is built with -finstrument-functions so that every entry into a covfie function is a scheduling point too (programs in which one lookup primes per-view / static state and another thread's lookup falls in between; preemption bound 2); a third exploration runs every schedule in a freshly forked process with a scheduling point at every basic block of covfie code (-fsanitize-coverage=trace-pc), so that first-use state (function-local statics, lazily built tables) is interleaved from its initial state; expected values there come from the reference curves; states = complete schedules executed, transitions = scheduling decisions taken; non-trivial = distinct (configuration, program) pairs; separately the same thread bodies run free under -fsanitize=thread with T in %s"
                % (bound, "2,3,8,16" if thorough else "2,8"),
        "schedules_with_function_entry_points": fn_scheds,
        "coldstart_schedules_each_in_a_fresh_process": cold_scheds, "coldstart_preemption_bound": cold_bound,
        "static_state_inventory": inv,
        "scheduler_protocol_model_spin": model,
        "tsan_runs": [j.name for j in js if j.name.startswith("tsan")],
    })
    if inv and (inv["writable_or_unique_data_symbols_in_covfie"] or inv["tls"]):
        ctx.notes.append("covfie:: defines writable static data; accesses to it are not scheduling points, only the ThreadSanitizer pass can judge them")
    ctx.assumptions += ["sequentially consistent hand-off: weak-memory effects are not modelled", "accesses between scheduling points are judged by the free-running ThreadSanitizer pass and the symbol inventory, not by the enumeration",
                        "T>3 threads only in the ThreadSanitizer pass"]


def replay(ctx, rp):
    return core.generic_replay(ctx, rp)
