"""C03 linear interpolation == N-linear interpolant over the input dimensions (binary128 reference)."""
import os
from vplib import core
from vplib.core import Job, VERIF
SRC = os.path.join(VERIF, "harness/c03_linear.cpp")
BQ = {1: 5, 2: 3, 3: 3, 4: 2, 5: 2}
BT = {1: 8, 2: 5, 3: 4, 4: 3, 5: 3}


def run(ctx):
    thorough = ctx.tier == "thorough"
    B = BT if thorough else BQ
    js = []
    kinds = {1: ["K_strided", "K_morton", "K_clamp"], 2: ["K_strided", "K_morton", "K_hilbert", "K_clamp"],
             3: ["K_strided", "K_morton", "K_clamp"], 4: ["K_strided", "K_morton", "K_clamp"], 5: ["K_strided", "K_clamp"]}
    if not thorough:
        kinds = {1: ["K_strided", "K_clamp"], 2: ["K_strided", "K_morton", "K_hilbert"], 3: ["K_strided", "K_clamp"], 4: ["K_strided"], 5: ["K_strided"]}
    for n, ks in kinds.items():
        for k in ks:
            name = "%s_N%d" % (k, n)
            flags = ["-O1", "-w", "-fsanitize=address"] if (thorough or n <= 3) else ["-O2", "-w"]
            if n == 5 and thorough:
                flags = ["-O2", "-w"]
            argv = [B[n]] + (["localbasis"] if n == 5 else [])
            if n == 5 and k == "K_clamp":
                argv = [2]   # clamp beneath at N=5: 2^5 cells, full basis, 7^5 coordinates
            js.append(Job(name, SRC, flags, ["VP_N=%d" % n, "VP_KIND=" + k] + ([] if thorough else ["VP_QUICK"]), argv, timeout=1500, key_prefix=name))
    total = core.build_and_run(ctx, js)
    core.set_generic_cov(ctx, total,
        "per (backend kind, N, M, coordinate type, storage type): every extent vector with extents 2..B_N (B=%s) x {full one-hot basis e_p for every lattice point p (N=5: corners of first and last cell), 3 non-affine full patterns} x "
        "per-axis coordinate alphabet {i, i+2^-20, i+1/4, i+1/2, i+1-2^-20 : 0<=i<=ext-2} (clamp beneath: also ext-1, ext, ext+1/4, 2^20); oracle: binary128 N-linear interpolant with tolerance (2N+2^N+4)*u*sum|w*v|, "
        "exact equality at lattice points, range clause; M in {1,3} x (float,float),(double,double) in quick, M in 1..4 x all four precisions in thorough; a distinct non-trivial case is one (configuration, extent vector) fully explored; states = distinct data sets (fields) built" % B,
        {"bounds": B})
    ctx.cov["fields_built"] = total.get("states", 0)
    ctx.assumptions += ["tolerance constant derived from the operation count and doubled", "coordinates restricted to dyadic rationals so that weights are exact",
                        "N=5 uses a cell-local one-hot basis plus the three full patterns"]


def replay(ctx, rp):
    return core.generic_replay(ctx, rp)
