"""C02 a stack's lookup is the composition of its layers' maps (generated stacks vs a reference interpreter)."""
import os
from vplib import core, grammar as g
from vplib.core import Job, VERIF
from checks.c13 import HDR, NM_ALL, type_variants

HDR2 = HDR + "#include <vp/stackcheck.hpp>\n"


def stack_fn(i, s):
    name = s.name().replace('"', "'")
    key = "compose:" + s.short()
    return ("static void run_%d(vp::Report & R) {\n  using B = %s;\n  covfie::field<B> f = %s;\n  %s\n  %s\n  vp::check_stack<B>(R, f, d, %d, \"%s\", \"%s\");\n}\n" % (
        i, s.cpp_type(), s.make_expr(), g.fill_cpp(s, "f"), g.desc_cpp(s, "d"), s.depth(), name, key))


def gen_tu(path, group, chunk, base):
    with open(path, "w") as fh:
        fh.write(HDR2)
        for j, s in enumerate(chunk):
            fh.write(stack_fn(base + j, s))
        fh.write("int main() {\n  vp::Report R(\"%s\");\n" % group)
        fh.write("  const char * only = std::getenv(\"VP_ONLY_CASE\");\n")
        for j, s in enumerate(chunk):
            nm = s.name().replace('"', "'")
            fh.write("  if (!only || std::string(only).find(\"%s\") == 0) run_%d(R);\n" % (nm, base + j))
        fh.write("  R.sample(\"%s\");\n" % chunk[0].name().replace('"', "'"))
        fh.write("  R.emit();\n  return 0;\n}\n")


def select(ctx):
    thorough = ctx.tier == "thorough"
    stacks, seen = [], set()
    FULL4 = list(NM_ALL)   # thorough: every stack to depth 4 for all 16 (N,M)
    plan = [(nm, 4 if (thorough and nm in FULL4) else 5) for nm in NM_ALL]
    for i, ((n, m), depth) in enumerate(plan):
        it, rt, st = type_variants(i)
        ss = g.enumerate_stacks(n, m, depth, itype=it, rtype=rt, stype=st, variant=i)
        if not (thorough and (n, m) in FULL4):
            ss = g.adjacency_cover(ss)
        for s in ss:
            if not g.view_fits(s):
                continue
            k = s.cpp_type()
            if k not in seen:
                seen.add(k)
                stacks.append(s)
    return stacks, plan


def run(ctx):
    stacks, plan = select(ctx)
    stacks, oversize = g.filter_by_real_view_size(ctx, stacks, HDR2)
    ctx.cov["stacks_over_field_view_size_limit_excluded"] = oversize
    per_tu = 24
    js = []
    for b in range(0, len(stacks), per_tu):
        chunk = stacks[b:b + per_tu]
        p = os.path.join(ctx.build, "c02_%04d.cpp" % (b // per_tu))
        gen_tu(p, "tu%04d" % (b // per_tu), chunk, b)
        js.append(Job("c02_%04d" % (b // per_tu), p, ["-O1", "-w", "-mbmi2"], [], [], timeout=1500, key_prefix="tu%04d" % (b // per_tu)))
    total = core.build_and_run(ctx, js)
    ctx.level = "model_checking"
    ctx.cov.update({
        "states": int(total.get("evaluations", 0)), "transitions": int(total.get("transitions", 0)),
        "traces_validated_against_impl": int(total.get("traces", 0)),
        "evaluations": int(total.get("evaluations", 0)), "distinct_nontrivial": int(total.get("distinct_nontrivial", 0)),
        "stacks": len(stacks), "stacks_with_empty_domain": total.get("stacks_with_empty_domain", 0),
        "coordinates_total": total.get("coordinates_total"), "coordinates_in_domain": total.get("coordinates_in_domain"),
        "samples": total.get("samples", [])[:8] or ["(none)"],
        "rule": "generated stacks of the layer grammar (quick: pairwise adjacency cover at depth <= 5 for all 16 (N,M); thorough: EVERY stack to depth 4 for all 16 (N,M)), coordinate/storage types rotated; innermost models: "
                "probe_fn, constant, identity, and array / probe_array filled from the interpreter's model function; per stack the N-fold product of a dyadic coordinate alphabet (integers 0..4 or reals -0.25..3.25); the reference interpreter applies each layer's "
                "one-line definition outermost to innermost and the value maps on the way out, and also decides whether the coordinate is inside the stack's domain (storage extents, interpolation cell) - only in-domain coordinates are put to the implementation; "
                "both at() overloads must equal the interpreter exactly (within 64u(sum|wv|+1) through linear); states = (stack, in-domain coordinate) pairs evaluated on the implementation, transitions = interpreter traces, "
                "distinct_nontrivial = stacks with a non-empty domain",
        "plan": [[list(nm), d] for nm, d in plan], "translation_units": len(js),
    })
    ctx.assumptions += ["dyadic alphabets make every non-interpolating operation exact", "negative lattice indices are treated as outside every stack's domain",
                        "the array model treats (storage order, array) as one N-d array; the curves themselves are C14's subject"]


def replay(ctx, rp):
    # regenerate the TU that contained the stack and run only that stack
    r = rp.get("replay", {})
    case = r.get("case") or ""
    stacks, _ = select(ctx)
    name = case.split(" x(")[0]
    hit = [s for s in stacks if s.name().replace('"', "'") == name]
    if not hit:
        print("stack not found in the current tier's selection:", name)
        return 2
    p = os.path.join(ctx.build, "replay.cpp")
    gen_tu(p, "replay", hit[:1], 0)
    j = Job("replay", p, ["-O1", "-w", "-mbmi2"], [], [])
    core.build_and_run(ctx, [j])
    print(j.stdout[-3000:])
    for v in ctx.violations:
        print("REPLAYED VIOLATION key=%s :: %s" % (v.key, v.detail))
    return 1 if ctx.violations else 0
