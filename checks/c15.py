"""C15 no undefined behaviour on the documented domain, in assertion-enabled and NDEBUG builds; both builds agree."""
import os
from vplib import core, grammar as g
from vplib.core import Job, VERIF
from checks import c02

HIST = os.path.join(VERIF, "harness/c12_history.cpp")
UB = ["-fsanitize=address,undefined,float-divide-by-zero,float-cast-overflow", "-fno-sanitize-recover=all"]
BUILDS = [
    ("O0_assert_san", ["-O0", "-w", "-mbmi2"] + UB, None),
    ("O2_ndebug_san", ["-O2", "-w", "-mbmi2", "-DNDEBUG"] + UB, None),
    ("O1_assert_valgrind", ["-O1", "-g", "-w", "-mbmi2"], ["valgrind", "-q", "--error-exitcode=97", "--leak-check=no"]),
    ("O2_ndebug_valgrind", ["-O2", "-g", "-w", "-mbmi2", "-DNDEBUG"], ["valgrind", "-q", "--error-exitcode=97", "--leak-check=no"]),
]


def run(ctx):
    thorough = ctx.tier == "thorough"
    js = []
    # (1) operation histories: construction, writes, copy/move, assignment, conversion, dump+load, destruction, with a read of every
    #     cell of every live field after every operation (the lookups)
    hist_args = [3, 4, 2, 2, "bfs", 100, 600] if thorough else [2, 4, 2, 2, "bfs", 100, 300]
    all_args = [2, 4, 3, 3, "all", 5 if thorough else 4, 600]
    for name, flags, runner in BUILDS:
        if not thorough and name == "O1_assert_valgrind":
            continue
        js.append(Job("hist_bfs_" + name, HIST, flags, [], hist_args, timeout=1500, runner=runner, distinct=(name == "O0_assert_san"), key_prefix="hist_bfs_" + name))
        js.append(Job("hist_all_" + name, HIST, flags, [], all_args, timeout=1500, runner=runner, distinct=(name == "O0_assert_san"), key_prefix="hist_all_" + name))
    # (2) lookups over the stack grammar: the pairwise adjacency cover (every layer present), all alphabet coordinates of each stack's domain
    stacks, seen = [], set()
    nms = [(1, 1), (1, 3), (2, 2), (3, 1), (3, 3), (2, 4), (4, 2), (4, 4)] if thorough else [(1, 1), (2, 3), (3, 2)]
    for i, (n, m) in enumerate(nms):
        it, rt, st = ("std::size_t", "float", "float") if i % 2 == 0 else ("int", "double", "double")
        for s in g.adjacency_cover(g.enumerate_stacks(n, m, 5, itype=it, rtype=rt, stype=st, variant=i)):
            if g.view_fits(s) and s.cpp_type() not in seen:
                seen.add(s.cpp_type())
                stacks.append(s)
    stacks, _over = g.filter_by_real_view_size(ctx, stacks, c02.HDR2)
    per_tu = 30
    tus = []
    for b in range(0, len(stacks), per_tu):
        p = os.path.join(ctx.build, "lookups_%03d.cpp" % (b // per_tu))
        c02.gen_tu(p, "lookups%03d" % (b // per_tu), stacks[b:b + per_tu], b)
        tus.append(p)
    for name, flags, runner in BUILDS:
        if not thorough and name == "O1_assert_valgrind":
            continue
        for ti, p in enumerate(tus):
            js.append(Job("lookups%03d_%s" % (ti, name), p, flags, [], [], timeout=1500, runner=runner, distinct=(name == "O0_assert_san"), key_prefix="lookups%03d_%s" % (ti, name)))
    total = core.build_and_run(ctx, js)
    # (3) binary IO between field types: dump + load of every array-backed catalogue stack up to depth 3 (all configuration variants
    #     incl. the several-KiB payload) and every writer -> reader pair that differs in interpolator / float width, in both
    #     sanitizer builds
    from vplib import iogen
    from checks import c06
    io_stacks = [s for s in iogen.catalogue(ctx.tier) if any(L.kind == "array" for L in s.layers) and s.depth() <= 3]
    io_stacks, _ = g.filter_by_real_view_size(ctx, io_stacks, iogen.HDR_IO)
    io_digests = {}
    io_cases = 0
    for name, flags, runner in BUILDS:
        if not thorough and name == "O1_assert_valgrind":
            continue
        exe, bad = iogen.build_binary(ctx, io_stacks, c06.MAIN, flags, "io_" + name)
        if exe is None:
            for pth, log in bad:
                ctx.violation("compile:io_" + name, "an IO harness unit does not compile against the tree: " + core.first_diag(log), {"compile_log": log[-3000:], "file": str(pth)})
            continue
        for mode in ("roundtrip", "pairs"):
            if runner is not None and mode == "pairs":
                continue
            # under memcheck: one bit pattern per configuration variant (every stack, every variant, load + lookups at every lattice coordinate)
            st = c06.run_mode(ctx, exe, [mode, "quick"], "io_%s_%s" % (mode, name), runner=runner, env=({"VP_IO_LIGHT": "1"} if runner else None))
            if runner is not None:
                continue   # fewer patterns: its digest is not comparable with the sanitizer builds'

            io_cases += int(st.get("evaluations", 0))
            for gname, gv in st.get("groups", {}).items():
                io_digests.setdefault((mode, gname), {})[name] = gv.get("digest")
    for (mode, gname), ds in io_digests.items():
        if len(set(ds.values())) > 1:
            ctx.violation("digest:io_" + mode, "build configurations disagree on the results of the same IO programs: %s" % ds, {"digests": ds})
    # digests must agree across the builds of one program set
    groups = {}
    for j in js:
        if j.stats.get("fixpoint_reached") == 0:
            # a breadth-first run ended by its time budget (slow build / loaded machine) saw a prefix of the state space:
            # no violation was seen in what it covered, but its digest is not comparable with the complete runs
            ctx.capped = True
            ctx.cov.setdefault("runs_ended_by_their_time_budget", []).append(j.name)
            continue
        base = j.name.rsplit("_", 3)[0] if j.name.startswith("hist") else j.name.split("_")[0]
        for gname, gv in j.stats.get("groups", {}).items():
            groups.setdefault((base, gname), {})[j.name] = gv.get("digest")
    for (base, gname), ds in groups.items():
        if len(set(ds.values())) > 1:
            ctx.violation("digest:" + base, "build configurations disagree on the results of the same programs: %s" % ds, {"digests": ds})
    ctx.level = "exploration"
    core.set_generic_cov(ctx, total,
        "programs = (1) operation histories over field slots (construction, writes through views, copy/move construction, copy/move assignment incl. self, layout conversion in copying and moving form, dump+load, destruction; types strided / Morton / affine<nn<..>>; "
        "BFS to fixpoint plus every history up to a length without merging) with every cell of every live field looked up after every operation, and (2) lookups at every in-domain alphabet coordinate of every stack of the pairwise layer-adjacency cover "
        "(every layer present, N,M up to 4); each program set is built and run in the configurations %s; oracle: no AddressSanitizer / UndefinedBehaviorSanitizer (incl. float-cast-overflow, missing return) / memcheck report, no assertion, "
        "and identical 64-bit digests of all observed values across the configurations; distinct_nontrivial counts the cases of one configuration" % [b[0] for b in BUILDS],
        {"lookup_stacks": len(stacks), "builds": [b[0] for b in BUILDS], "io_stacks": len(io_stacks), "io_cases_both_sanitizer_builds": io_cases,
         "io_programs": "(3) dump + load of every array-backed catalogue stack up to depth 3 (five configuration variants incl. a several-KiB payload) and every writer -> reader pair of them that differs only in interpolator / float width, "
                        "in the two sanitizer builds, the round trips (one bit pattern per variant, with lookups at every lattice coordinate of the reloaded field) also under memcheck; same oracle (no sanitizer / memcheck report, identical digests)"})
    ctx.assumptions += ["'randomly generated programs' is replaced by bounded-exhaustive enumeration of histories and of the stack cover", "malformed input streams are C08's subject, not this property's domain"]


def replay(ctx, rp):
    return core.generic_replay(ctx, rp)
