"""C12 fields stay independent values under any history (explicit-state BFS over operation histories)."""
import os
from vplib import core
from vplib.core import Job, VERIF
SRC = os.path.join(VERIF, "harness/c12_history.cpp")
LEDGER = ["-O1", "-w", "-DVP_LEDGER"]
ASAN = ["-O1", "-w", "-fsanitize=address,undefined", "-fno-sanitize-recover=undefined"]
NDEBUG = ["-O2", "-w", "-DNDEBUG", "-DVP_LEDGER"]

def run(ctx):
    thorough = ctx.tier == "thorough"
    cfgs = []  # (name, flags, argv, distinct)
    if thorough:
        cfgs += [("bfs_K3_T4_noprov_ledger", LEDGER, [3, 4, 3, 3, "bfs", 100, 900, "noprov"], True),
                 ("bfs_K3_T4_noprov_asan", ASAN, [3, 4, 3, 3, "bfs", 100, 900, "noprov"], False),
                 ("bfs_K3_T4_noprov_O2", NDEBUG, [3, 4, 3, 3, "bfs", 100, 900, "noprov"], False),
                 ("bfs_K3_T4_small_prov_ledger", LEDGER, [3, 4, 2, 2, "bfs", 100, 900], True),
                 ("bfs_K3_T4_small_prov_asan", ASAN, [3, 4, 2, 2, "bfs", 100, 900], False),
                 ("bfs_K2_T4_prov_ledger", LEDGER, [2, 4, 3, 3, "bfs", 100, 900], True),
                 ("bfs_K2_T4_prov_asan", ASAN, [2, 4, 3, 3, "bfs", 100, 900], False),
                 ("bfs_K4_T2_noprov_ledger", LEDGER, [4, 2, 2, 2, "bfs", 100, 900, "noprov"], True),
                 ("all_K2_len6_ledger", LEDGER, [2, 2, 3, 3, "all", 6, 900], True),
                 ("all_K2_T4_len5_asan", ASAN, [2, 4, 3, 3, "all", 5, 900], True)]
    else:
        cfgs += [("bfs_K2_T4_prov_ledger", LEDGER, [2, 4, 3, 3, "bfs", 100, 300], True),
                 ("bfs_K2_T4_prov_asan", ASAN, [2, 4, 3, 3, "bfs", 100, 300], False),
                 ("bfs_K3_T4_small_noprov_ledger", LEDGER, [3, 4, 2, 2, "bfs", 100, 300, "noprov"], True),
                 ("bfs_K3_T4_small_noprov_O2", NDEBUG, [3, 4, 2, 2, "bfs", 100, 300, "noprov"], False),
                 ("all_K2_T4_len4_asan", ASAN, [2, 4, 3, 3, "all", 4, 300], True)]
    js = [Job(n, SRC, f, [], a, timeout=(1500 if thorough else 600), distinct=d, env={"ASAN_OPTIONS": "detect_leaks=1:abort_on_error=0"}) for n, f, a, d in cfgs]
    total = core.build_and_run(ctx, js)
    # identical configurations must agree on the digest of all observations across builds
    by_cfg = {}
    for j in js:
        if j.stats.get("fixpoint_reached") == 0:
            continue   # ended by its time budget: it saw a prefix of the state space, its digest is not comparable
        g = list(j.stats.get("groups", {}).items())
        if g:
            by_cfg.setdefault(g[0][0], set()).add(g[0][1].get("digest"))
    for k, ds in by_cfg.items():
        if len(ds) > 1:
            ctx.violation("digest:" + k, "builds disagree on the values observed along the same histories: %s" % sorted(ds), {})
    fix = [j.stats.get("fixpoint_reached") for j in js if "bfs" in j.name and j.stats]
    if any(f == 0 for f in fix):
        ctx.capped = True
    ctx.level = "model_checking"
    ctx.cov.update({
        "states": int(sum(j.stats.get("states", 0) for j in js if j.distinct and j.stats)), "transitions": int(total.get("transitions", 0)),
        "traces_validated_against_impl": int(total.get("traces", 0)),
        "evaluations": int(total.get("evaluations", 0)), "distinct_nontrivial": int(total.get("distinct_nontrivial", 0)),
        "samples": total.get("samples", [])[:6] or ["(none)"],
        "rule": "explicit-state BFS to fixpoint over operation histories on a pool of K interchangeable slots; alphabet: new(type,ext) / write(cell,val) / copy-ctor / move-ctor / copy-assign incl. self / move-assign / convert (copying and moving form) / dump+load / destroy; "
                "types S=strided<size2,array<float1>>, M=morton<...,false>, W=affine<nn<S>>, V=affine<nn<M>>; extents (1,1),(2,1),(1,2); values 0..2; moved-from slots only accept assignment and destruction; "
                "a state is the history that reaches it, replayed on fresh objects; canonical form = sorted per-slot (dead | moved-from type | type,extents,values,provenance of the buffer: new / copied / converted / loaded - kept because hidden state such as the true allocation size can differ between a fresh and a converted field; 'noprov' runs drop it to reach larger pools); every transition is executed on the implementation and checked after every operation "
                "against the plain array model (values at all coordinates through a fresh view AND through a view taken when the field's buffer was last built, extents, no two live fields sharing a buffer), the allocation ledger (no leak, double or foreign free at teardown) or ASan/UBSan/LSan; "
                "'all' runs enumerate every history up to the stated length without merging states; configurations: " + ", ".join("%s=%s" % (c[0], c[2]) for c in cfgs),
        "per_run": {j.name: {k: v for k, v in j.stats.items() if k in ("states", "transitions", "max_depth", "fixpoint_reached", "all_histories_up_to_length")} for j in js if j.stats},
    })
    ctx.assumptions += ["slots are interchangeable (symmetry reduction: only the lowest dead slot is filled, slot descriptions are sorted)",
                        "self-move-assignment and use of moved-from fields other than assign-to/destroy are outside the property",
                        "no seeded random long histories: the BFS reaches its fixpoint instead"]

def replay(ctx, rp):
    return core.generic_replay(ctx, rp)
