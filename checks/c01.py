"""C01 storage-order layers behave as an N-d array (probe index map + real array under ASan)."""
import os
from vplib import core
from vplib.core import Job, VERIF

SRC = os.path.join(VERIF, "harness/c01_storage.cpp")
BQ = {1: 9, 2: 5, 3: 3, 4: 2}
BT = {1: 33, 2: 17, 3: 6, 4: 4}


def jobs(ctx):
    thorough = ctx.tier == "thorough"
    B = BT if thorough else BQ
    san = ["-O1", "-w", "-fsanitize=address,undefined", "-fno-sanitize-recover=undefined"] if thorough else ["-O1", "-w", "-fsanitize=address"]
    out = []
    groups = [("L_strided", [1, 2, 3, 4], []), ("L_morton_port", [1, 2, 3, 4], []),
              ("L_morton_port", [1, 2, 3, 4], ["-mbmi2"]), ("L_morton_bmi", [1, 2, 3, 4], ["-mbmi2"]),
              ("L_hilbert", [2], [])]
    for layer, ns, extra in groups:
        for n in ns:
            name = "%s_N%d%s" % (layer, n, "_bmi2build" if extra else "")
            d = ["VP_LAYER=" + layer, "VP_N=%d" % n] + ([] if thorough else ["VP_QUICK"])
            out.append(Job(name, SRC, san + extra, d, [B[n]], key_prefix=name))
    return out


def run(ctx):
    js = jobs(ctx)
    total = core.build_and_run(ctx, js)
    ctx.level = "exploration"
    B = BT if ctx.tier == "thorough" else BQ
    core.set_generic_cov(
        ctx, total,
        "every extent vector with all extents in 1..B_N (B=%s) x every in-range coordinate, per (layer, N, M, coordinate type, storage type); "
        "a case is one (configuration, extent vector) explored completely: probe index map via converting ctor and via parameter pack "
        "(in-bounds, injective, single access, value==model), then write/overwrite/read-all on the real array backend under ASan; "
        "plus a large-extent index-map pass (power-of-two boundaries, strongly non-square); distinct_nontrivial counts distinct (configuration, extent vector) pairs" % B,
        {"bounds": {"B_per_N": B}, "builds": [j.name for j in js]})
    ctx.assumptions += ["g++ 12 on x86-64; BMI2 path built with -mbmi2 and executed on this CPU",
                       "beyond the bound only a deterministic set of large extent vectors (65535..2^20+1 in 1-D, up to 1025^2, 33x65x17, 9x17x5x3) is explored, index map only; no random tail"]


def replay(ctx, rp):
    return core.generic_replay(ctx, rp)
