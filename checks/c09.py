"""C09 affine layer maps x to Ax+t; transforms compose as functions; factories."""
import os
from vplib import core
from vplib.core import Job, VERIF
SRC = os.path.join(VERIF, "harness/c09_affine.cpp")

def run(ctx):
    exe_jobs = []
    for n in (1, 2, 3, 4):
        exe_jobs.append(Job("affine_asan_N%d" % n, SRC, ["-O1", "-w", "-fsanitize=address,undefined", "-fno-sanitize-recover=undefined"], [], [ctx.tier if n < 3 else "quick", n], timeout=1200, distinct=False))
        exe_jobs.append(Job("affine_O2_N%d" % n, SRC, ["-O2", "-w", "-DNDEBUG"], [], [ctx.tier, n], timeout=1200))
    total = core.build_and_run(ctx, exe_jobs)
    core.set_generic_cov(ctx, total,
        "N=1,2: every affine map with all entries in {-2..2} x every vector in {-2..2}^N; N=3: all entries in {-1,0,1} x {-1,0,1}^3 (thorough; quick: identity with <=2 deviating entries); "
        "N=4: identity with <= deviation_bound deviating entries from {-1,0,1,2} x {-1,0,1}^4; observed through affine<identity<R^N>> and through operator*; "
        "composition: every product of 2..max_product_length generators (identity, unit translations, scaling, negation, axis swaps, shear) x vectors {-1,0,2}^N: (a*b*..)*v == sequential application == integer reference; "
        "factories translation/scaling/identity over {-2,0,1,3}^N x {-3,0,1,5}^N; inexact ladder alphabet with bound (N+2)u*sum|a x|; float and double; non-trivial = distinct maps / generator chains",
        {})
    ctx.cov["transitions_products"] = total.get("transitions", 0)
    ctx.assumptions += ["all exact-alphabet operations are exactly representable, so == is demanded", "ASan/UBSan build runs the quick bounds for N>=3"]

def replay(ctx, rp):
    return core.generic_replay(ctx, rp)
