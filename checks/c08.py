"""C08 truncated / mis-tagged / foreign / failing input is rejected with an exception (complete fault enumeration per dump)."""
import os
from vplib import core, iogen
from vplib.core import VERIF
from checks.c06 import build, run_mode, FLAGS_ASAN, FLAGS_O2


def run(ctx):
    thorough = ctx.tier == "thorough"
    exe_a, stacks = build(ctx, "asan", FLAGS_ASAN)
    exe_o, _ = build(ctx, "o2", FLAGS_O2 + ["-g"])
    tot = {}
    per = {}
    NS = 16
    work = []
    if exe_a:
        work += [("assert_asan_ubsan", exe_a, 1, sh, None, {"ASAN_OPTIONS": "detect_leaks=0:allocator_may_return_null=0:max_allocation_size_mb=4096"}) for sh in range(NS)]
    if exe_o:
        work += [("ndebug_O2", exe_o, 1, sh, None, None) for sh in range(NS)]
        stride = 7 if thorough else 61
        vg = ["valgrind", "-q", "--error-exitcode=0", "--undef-value-errors=yes", "--track-origins=no", "--child-silent-after-fork=no"]
        work += [("ndebug_O2_valgrind_memcheck", exe_o, stride, sh, vg, None) for sh in range(NS)]

    def one(w):
        name, exe, stride, sh, runner, env = w
        e = dict(core.SAN_ENV)
        if env:
            e.update(env)
        rc, so, se = ctx.run((runner or []) + [exe, "faults", ctx.tier, str(stride), str(sh), str(NS)], timeout=3000, env=e)
        return w, rc, so, se
    for (name, exe, stride, sh, runner, env), rc, so, se in ctx.parallel(one, work):
        rb = {"argv": ["faults", ctx.tier, str(stride), str(sh), str(NS)], "build": name}
        st = ctx.harvest(so, rb)
        per.setdefault(name, {})
        core.merge_stats(per[name], {a: b for a, b in st.items() if a not in ("groups", "samples")})
        if rc == -999:
            ctx.violation("timeout:" + name, "fault harness shard %d did not finish" % sh, rb)
        elif rc != 0:
            rb["stderr_tail"] = se[-3000:]
            ctx.violation("crash:" + name, "fault harness shard %d exited with status %s: %s" % (sh, rc, core.sanitizer_summary(se)), rb)
    for k, st in per.items():
        core.merge_stats(tot, {a: b for a, b in st.items() if a not in ("groups", "samples")})
    first = per.get("assert_asan_ubsan") or per.get("ndebug_O2") or {}
    ctx.level = "fault_enumeration"
    ctx.cov.update({
        "evaluations": int(tot.get("evaluations", 0)), "distinct_nontrivial": int(first.get("evaluations", 0)),
        "rule": "for every dump D of the serialisable catalogue (quick %d stacks): EVERY proper prefix D[0..k); every word the E7 automaton labels as header/footer magic, tag or float width x replacement alphabet {0, ~0, w^1, w^0x80000000, w^0x10000, w+-0x20000000, "
                "the two magics, every known layer tag and its footer form; width in {0..13,15,16,17,24,32,64,~0, byte-shifted forms}} (skipped and counted when the damaged stream is still grammatical for the reader); every other catalogue stack's dump that the reader's grammar rejects "
                "(format-compatible writers are counted, not demanded to throw); a stream that stops delivering at the n-th read for every n below the read count of a successful load; each case must end in an exception - a returned field, abort, signal, "
                "hang (alarm) or memcheck error is a violation; three build/oracle combinations: assert-enabled -O1 ASan+UBSan, -O2 NDEBUG, -O2 NDEBUG under valgrind memcheck (every %d-th case); distinct_nontrivial = distinct fault cases of one build"
                % (len(stacks), 7 if thorough else 61),
        "samples": ["<stack> prefix 17/92", "<stack> word@8 role1 ab020010->ab020006", "<stack> reads a file written by <other stack>", "<stack> stream fails at read 3/19"],
        "per_build": {k: {a: b for a, b in st.items() if a not in ("groups", "samples")} for k, st in per.items()},
        "catalogue_stacks": len(stacks),
    })
    ctx.assumptions += ["the element-count word is not corrupted (not listed by the property; a huge count legitimately ends in bad_alloc)",
                        "'incompatible stack' is decided by the format grammar of the reader, since the format encodes neither dimensionalities nor scalar types",
                        "valgrind cannot deliver bad_alloc; no count corruption is ever run under it"]


def replay(ctx, rp):
    exe, _ = build(ctx, "asan", FLAGS_ASAN)
    if not exe:
        return 1
    r = rp.get("replay", {})
    case = (r.get("case") or "").split(" ")[0]
    run_mode(ctx, exe, ["faults", rp.get("tier", "quick"), 1], "replay", env={"VP_ONLY_CASE": case, "ASAN_OPTIONS": "detect_leaks=0"})
    for v in ctx.violations:
        print("REPLAYED VIOLATION key=%s :: %s" % (v.key, v.detail))
    return 1 if ctx.violations else 0
