"""C18 round_pow2 / ipow exact; curve storage large enough (sizing clause via the C01 probe pass)."""
import os
from vplib import core
from vplib.core import Job, VERIF

NUM = os.path.join(VERIF, "harness/c18_numeric.cpp")
C01 = os.path.join(VERIF, "harness/c01_storage.cpp")
BQ = {1: 9, 2: 5, 3: 3, 4: 2}
BT = {1: 33, 2: 17, 3: 6, 4: 4}


def run(ctx):
    thorough = ctx.tier == "thorough"
    js = [Job("numeric_O0", NUM, ["-O0", "-w", "-pthread"], [], [ctx.tier], timeout=(900 if thorough else 240)),
          Job("numeric_O2", NUM, ["-O2", "-w", "-pthread"], [], [ctx.tier], timeout=(900 if thorough else 240), distinct=False),
          Job("numeric_O1_ubsan", NUM, ["-O1", "-w", "-pthread", "-fsanitize=undefined", "-fno-sanitize-recover=undefined"], [], ["quick"], timeout=240, distinct=False)]
    B = BT if thorough else BQ
    for layer, ns, extra in [("L_morton_port", [1, 2, 3, 4], []), ("L_morton_bmi", [1, 2, 3, 4], ["-mbmi2"]), ("L_hilbert", [2], [])]:
        for n in ns:
            name = "sizing_%s_N%d" % (layer, n)
            js.append(Job(name, C01, ["-O1", "-w"] + extra, ["VP_LAYER=" + layer, "VP_N=%d" % n, "VP_QUICK"], [B[n]], key_prefix=name))
    total = core.build_and_run(ctx, js)
    g = total.get("groups", {})
    d0 = [j for j in js if j.name == "numeric_O0"][0].stats.get("groups", {}).get("numeric", {}).get("digest")
    d2 = [j for j in js if j.name == "numeric_O2"][0].stats.get("groups", {}).get("numeric", {}).get("digest")
    if d0 and d2 and d0 != d2:
        ctx.violation("digest:numeric", "-O0 and -O2 builds return different values (%s vs %s)" % (d0, d2), {})
    core.set_generic_cov(
        ctx, total,
        "round_pow2: every i in 1..2^(w-1) for w=8,16, every i up to round_u32_all_values_up_to for w=32 (all 2^31 in thorough), {2^k,2^k+-1} for w=64/size_t; "
        "ipow: all 65536 (b,e) pairs at w=8, all b x {0..64,2^k,2^k+-1,65535} at w=16, boundary x boundary at w=32/64; reference = bit scan / MSB-first square-and-multiply cross-checked against "
        "repeated multiplication; sizing: for every extent vector <= B_N the storage length reported by the converted Morton/Hilbert field exceeds every curve position of every in-range coordinate; "
        "each (type, argument) tuple resp. (layer, extent vector) is one distinct case",
        {"sizing_bounds": B})
    ctx.assumptions += ["inputs above 2^(w-1) for round_pow2 are outside the property's domain (the loop cannot terminate there)"]


def replay(ctx, rp):
    return core.generic_replay(ctx, rp)
