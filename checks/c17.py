"""C17 a field's configuration can be read back layer by layer and used to rebuild it; positional parameter-pack helper."""
import os
from vplib import core, grammar as g
from vplib.core import Job, VERIF
from checks.c13 import HDR, NM_ALL, type_variants

HDR2 = HDR + "#include <vp/cfgcheck.hpp>\n"


def stack_fn(i, s):
    name = s.name().replace('"', "'")
    key = "config:" + s.short()
    B = s.cpp_type()
    o = ["static void run_%d(vp::Report & R) {" % i, "  using B = %s;" % B]
    # constructed through the positional helper where it exists (depth <= 10), else through make_parameter_pack
    o.append("  covfie::field<B> f = %s;" % (s.make_for_expr() if s.depth() <= 10 else s.make_expr()))
    o.append("  " + g.fill_cpp(s, "f"))
    o.append("  " + g.desc_cpp(s, "d"))
    for idx in range(s.depth()):
        chain = "f.backend()" + ".get_backend()" * idx
        o.append("  { auto got = %s.get_configuration(); typename %s::configuration_t want = %s; ++R.transitions;" % (chain, s.cpp_type(idx), s.cfg_expr(idx)))
        o.append("    static_assert(std::is_same_v<decltype(got), typename %s::configuration_t>);" % s.cpp_type(idx))
        o.append("    if (!vp::cfg_equal(got, want)) R.viol(\"%s\", \"layer %d (%s) reports a configuration different from the one it was constructed with  [%s]\", \"%s layer%d\"); }" % (
            key, idx, s.layers[idx].kind, name, name, idx))
    # second configuration assignment: extreme / special values in every blob (bounds beyond the extents of a storage beneath,
    # reversed boxes, type extremes, signed zeros, infinities, NaN); read-back only, bit for bit, directly and after a rebuild
    v1 = g.with_cfgvar(s, 1)
    o.append("  { covfie::field<B> f1 = %s;" % (v1.make_for_expr() if v1.depth() <= 10 else v1.make_expr()))
    o.append("    covfie::field<B> r1(covfie::make_parameter_pack(vp::rebuild<B>(f1.backend())));")
    for idx in range(s.depth()):
        ch = ".backend()" + ".get_backend()" * idx
        o.append("    { typename %s::configuration_t want = %s; ++R.transitions;" % (s.cpp_type(idx), v1.cfg_expr(idx)))
        o.append("      if (!vp::cfg_same_bits(f1%s.get_configuration(), want) || !vp::cfg_same_bits(r1%s.get_configuration(), want)) R.viol(\"%s\", \"layer %d (%s) constructed with extreme configuration values reports different ones  [%s]\", \"%s layer%d extreme\"); }" % (
            ch, ch, key, idx, s.layers[idx].kind, name, name, idx))
    o.append("  }")
    # third assignment: an empty field (first extent 0, zero stored cells beneath a storage order) - read-back only
    v3 = g.with_cfgvar(s, 3)
    o.append("  { covfie::field<B> f3 = %s;" % (v3.make_for_expr() if v3.depth() <= 10 else v3.make_expr()))
    for idx in range(s.depth()):
        ch = ".backend()" + ".get_backend()" * idx
        o.append("    { typename %s::configuration_t want = %s; ++R.transitions;" % (s.cpp_type(idx), v3.cfg_expr(idx)))
        o.append("      if (!vp::cfg_same_bits(f3%s.get_configuration(), want)) R.viol(\"%s\", \"layer %d (%s) of an empty field reports a configuration different from the one it was constructed with  [%s]\", \"%s layer%d empty\"); }" % (
            ch, key, idx, s.layers[idx].kind, name, name, idx))
    o.append("  }")
    o.append("  covfie::field<B> rb(covfie::make_parameter_pack(vp::rebuild<B>(f.backend())));")
    o.append("  vp::same_field<B>(R, f, rb, d, %d, %s, \"%s\", \"%s\");" % (s.depth(), "true" if s.serialisable() else "false", name, key))
    o.append("  ++R.states;")
    o.append("}")
    return "\n".join(o) + "\n"


def gen_tu(path, group, chunk, base):
    with open(path, "w") as fh:
        fh.write(HDR2)
        for j, s in enumerate(chunk):
            fh.write(stack_fn(base + j, s))
        fh.write("int main() {\n  vp::Report R(\"%s\");\n" % group)
        fh.write("  const char * only = std::getenv(\"VP_ONLY_CASE\");\n")
        for j, s in enumerate(chunk):
            fh.write("  if (!only || std::string(only).find(\"%s\") == 0) run_%d(R);\n" % (s.name().replace('"', "'"), base + j))
        fh.write("  R.sample(\"%s\");\n" % chunk[-1].name().replace('"', "'"))
        fh.write("  R.emit();\n  return 0;\n}\n")


def deep_helper_stacks():
    """depth 1..10: k distinct clamps over identity<int1> (k = 0..9); also over strided<size1, array> for depth up to 10"""
    out = []
    for k in range(0, 10):
        out.append(g.Stack([g.Layer("clamp") for _ in range(k)] + [g.Layer("identity", s="int", n=1)]))
    for k in range(0, 9):
        out.append(g.Stack([g.Layer("clamp") for _ in range(k)] + [g.Layer("morton_port", i="std::size_t", n=1), g.Layer("array", t="float", m=1)]))
    for k in range(1, 9):
        out.append(g.Stack([g.Layer("affine") if q % 2 else g.Layer("clamp") for q in range(k)] + [g.Layer("constant", s="float", n=1, t="double", m=2)]))
    # adjacent layers with the SAME configuration type and different values (a swapped pair of positional arguments still type-checks)
    for k in range(1, 10):
        out.append(g.Stack([g.Layer("affine") for _ in range(k)] + [g.Layer("identity", s="float", n=1)]))
    for k in range(2, 9):
        out.append(g.Stack([g.Layer("shuffle", perm=[0]) if q % 3 == 2 else g.Layer("affine") for q in range(k)] + [g.Layer("probe_fn", s="double", n=1, t="float", m=2)]))
    return [s for s in out if s.ok and g.view_fits(s)]


def select(ctx):
    thorough = ctx.tier == "thorough"
    stacks, seen = [], set()
    FULL4 = [(1, 2), (2, 1), (2, 2), (3, 3), (4, 4)]
    plan = [(nm, 4 if (thorough and nm in FULL4) else 5) for nm in NM_ALL]
    for i, ((n, m), depth) in enumerate(plan):
        it, rt, st = type_variants(i + 1)
        ss = g.enumerate_stacks(n, m, depth, itype=it, rtype=rt, stype=st, variant=i + 1)
        if not (thorough and (n, m) in FULL4):
            ss = g.adjacency_cover(ss)
        for s in ss + (deep_helper_stacks() if i == 0 else []):
            if not g.view_fits(s):
                continue
            k = s.cpp_type()
            if k not in seen:
                seen.add(k)
                stacks.append(s)
    return stacks, plan


def run(ctx):
    stacks, plan = select(ctx)
    stacks, oversize = g.filter_by_real_view_size(ctx, stacks, HDR2)
    ctx.cov["stacks_over_field_view_size_limit_excluded"] = oversize
    per_tu = 24
    js = []
    for b in range(0, len(stacks), per_tu):
        chunk = stacks[b:b + per_tu]
        p = os.path.join(ctx.build, "c17_%04d.cpp" % (b // per_tu))
        gen_tu(p, "tu%04d" % (b // per_tu), chunk, b)
        js.append(Job("c17_%04d" % (b // per_tu), p, ["-O1", "-w", "-mbmi2"], [], [], timeout=1500, key_prefix="tu%04d" % (b // per_tu)))
    total = core.build_and_run(ctx, js)
    ctx.level = "exploration"
    core.set_generic_cov(ctx, total,
        "generated stacks (quick: pairwise adjacency cover at depth <= 5 for all 16 (N,M); thorough: additionally EVERY stack to depth 4 for (N,M) in (1,2),(2,1),(2,2),(3,3),(4,4)) plus helper stacks of depth 1..10 (k distinct clamps over identity<int1>, over morton<size1,array>, alternating affine/clamp over constant); "
        "every layer gets a configuration value distinct from every other layer's; the field is constructed through make_parameter_pack_for (positional helper); for each layer i the configuration reported after i get_backend() steps is compared field by field with the i-th "
        "argument (and again, bit for bit, for a second assignment with extreme values in every blob: bounds beyond the extents beneath, reversed boxes, type extremes, -0.0, infinities, NaN - no lookups on those fields); the field is rebuilt recursively as owning_data_t(get_configuration(), rebuild(get_backend())) and compared with the original at every in-domain coordinate of the alphabet and by dump bytes (serialisable stacks); "
        "non-trivial = stacks with a non-empty coordinate domain; transitions = (stack, layer) configuration read-backs",
        {"stacks": len(stacks), "plan": [[list(nm), d] for nm, d in plan]})
    ctx.cov["configuration_readbacks"] = total.get("transitions", 0)
    ctx.assumptions += ["three configuration assignments per stack (pairwise distinct ordinary values; extreme / special values and an empty field read back bit for bit), not all values of every configuration type"]


def replay(ctx, rp):
    r = rp.get("replay", {})
    case = r.get("case") or ""
    stacks, _ = select(ctx)
    name = case.split(" x(")[0].split(" layer")[0]
    hit = [s for s in stacks if s.name().replace('"', "'") == name]
    if not hit:
        print("stack not found:", name)
        return 2
    p = os.path.join(ctx.build, "replay.cpp")
    gen_tu(p, "replay", hit[:1], 0)
    j = Job("replay", p, ["-O1", "-w", "-mbmi2"], [], [])
    core.build_and_run(ctx, [j])
    print(j.stdout[-3000:])
    for v in ctx.violations:
        print("REPLAYED VIOLATION key=%s :: %s" % (v.key, v.detail))
    return 1 if ctx.violations else 0
