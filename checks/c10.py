"""C10 clamping makes every coordinate safe."""
import os
from vplib import core
from vplib.core import Job, VERIF
SRC = os.path.join(VERIF, "harness/c10_clamp_backup.cpp")
WHAT = "clamp"
RULE = ("clamp<identity<T^N>> for T in {int,unsigned,size_t,long,float,double}, N=1..4, every box in {(0,0),(0,2),(1,3)}^N x the N-fold product of the per-axis alphabet "
        "(integers: MIN,MIN+1,-1,0,1,lo-1,lo,lo+1,hi-1,hi,hi+1,MAX-1,MAX; floating: -inf,-MAX,-1,-0.0,+0.0,+-denorm_min,lo-ulp,lo,lo+ulp,mid,hi-ulp,hi,hi+ulp,MAX,+inf; reduced to 6-7 values per axis for N=4 and quick N=3): delegated coordinate == reference clamp; "
        "clamp<strided|morton|hilbert<probe_array|array>> with 4^N extents and the box inside them: storage index in bounds (probe) / ASan silent (array) and value == model at the clamped coordinate; "
        "clamp<linear<strided<array>>> with box [0,2.75]^N: equals the interpolated field at the clamped coordinate; a non-trivial case is one (stack, coordinate type, box)")

def run(ctx):
    js = []
    for n in (1, 2, 3, 4):
        js.append(Job("%s_asan_N%d" % (WHAT, n), SRC, ["-O1", "-w", "-fsanitize=address,undefined", "-fno-sanitize-recover=undefined"], ["VP_N=%d" % n, "VP_ONLY_CLAMP"], [WHAT, ctx.tier], timeout=1200))
        js.append(Job("%s_O2_N%d" % (WHAT, n), SRC, ["-O2", "-w", "-DNDEBUG"], ["VP_N=%d" % n, "VP_ONLY_CLAMP"], [WHAT, ctx.tier], timeout=1200, distinct=False))
    total = core.build_and_run(ctx, js)
    for n in (1, 2, 3, 4):
        ds = set(j.stats.get("groups", {}).get("%s/N%d" % (WHAT, n), {}).get("digest") for j in js if j.name.endswith("_N%d" % n) and j.stats)
        if len(ds) > 1:
            ctx.violation("digest:N%d" % n, "assert-enabled and NDEBUG builds disagree", {})
    core.set_generic_cov(ctx, total, RULE, {})
    ctx.assumptions += ["NaN coordinates excluded", "boxes with lo <= hi only"]

def replay(ctx, rp):
    return core.generic_replay(ctx, rp)
