"""C05 changing representation preserves the field (layout pairs, chains, whole-stack conversions)."""
import os
from vplib import core
from vplib.core import Job, VERIF
SRC = os.path.join(VERIF, "harness/c05_convert.cpp")
BQ = {1: 9, 2: 5, 3: 3, 4: 2}
BT = {1: 33, 2: 17, 3: 6, 4: 4}

def run(ctx):
    thorough = ctx.tier == "thorough"
    B = BT if thorough else BQ
    js = []
    for n in ((1, 2, 3, 4) if thorough else (1, 2, 3)):
        for t in ("float", "double"):
            name = "convert_N%d_%s" % (n, t)
            js.append(Job(name, SRC, ["-O1", "-w", "-mbmi2", "-fsanitize=address"], ["VP_N=%d" % n, "VP_T=" + t] + ([] if thorough else ["VP_QUICK"]),
                          [B[n], 3 if thorough else 2], timeout=1500, key_prefix=name))
    cuda_inc = ["-I" + os.path.join(VERIF, "include/cuda_shim"), "-I" + os.path.join(ctx.repo, "lib/cuda")]
    js.append(Job("cuda_shim", os.path.join(VERIF, "harness/c05_cuda_shim.cpp"), ["-O1", "-w", "-fsanitize=address"] + cuda_inc, [], [ctx.tier], timeout=900, key_prefix="cuda_shim"))
    total = core.build_and_run(ctx, js)
    ctx.level = "model_checking"
    ctx.cov.update({
        "states": int(total.get("states", 0)),
        "transitions": int(total.get("transitions", 0)),
        "traces_validated_against_impl": int(total.get("transitions", 0)),
        "evaluations": int(total.get("evaluations", 0)),
        "distinct_nontrivial": int(total.get("distinct_nontrivial", 0)),
        "samples": total.get("samples", [])[:6] or ["(none)"],
        "rule": "states = (source layout, destination layout, extent vector, M, storage type) conversion situations reached + canonical layout states of the chain search; transitions = conversions executed on the real constructors "
                "(every one is run on the implementation, hence traces_validated == transitions); all ordered pairs over {strided, morton_bmi2 (built with -mbmi2), morton_portable, hilbert(N=2)} for every extent vector <= B_N (%s), M in {1,3}; "
                "every conversion sequence of length <= chain_length from the row-major source compared with the directly converted field (dump bytes); whole-stack affine<I1<L1<array>>> -> affine<I2<L2<array>>> for I in {nn,linear} on extent vectors {2,3}^N + one non-square; "
                "cuda_device_array storage under a host shim of the runtime (conversion, d2d copy/assign, move, D2H read-back equals the same layout on the host, no device leak, no wrong memcpy kind); oracles: extents, documented storage length, value at every lattice coordinate, byte-identical round trip, source dump unchanged, copy form == move form, affine configuration memcmp-equal" % B,
        "bounds": B, "chain_length": total.get("chain_length"), "groups": total.get("groups", {}),
    })
    ctx.assumptions += ["CUDA: host->device conversion, device copies and moves run on the host against a shim of the CUDA runtime whose device memory is ASan-poisoned for direct host access (reduced assurance: no real device)", "lookup equality of source and converted stack is demanded only when the interpolator is unchanged"]

def replay(ctx, rp):
    return core.generic_replay(ctx, rp)
