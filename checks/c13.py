"""C13 every well-kinded composition supports the whole field API; ill-kinded ones are rejected at compile time."""
import os, re
from vplib import core, grammar as g
from vplib.core import VERIF

HDR = r'''
#include <sstream>
#include <type_traits>
#include <covfie/core/field.hpp>
#include <covfie/core/backend/primitive/array.hpp>
#include <covfie/core/backend/primitive/constant.hpp>
#include <covfie/core/backend/primitive/identity.hpp>
#include <covfie/core/backend/transformer/affine.hpp>
#include <covfie/core/backend/transformer/backup.hpp>
#include <covfie/core/backend/transformer/clamp.hpp>
#include <covfie/core/backend/transformer/covariant_cast.hpp>
#include <covfie/core/backend/transformer/dereference.hpp>
#include <covfie/core/backend/transformer/hilbert.hpp>
#include <covfie/core/backend/transformer/linear.hpp>
#include <covfie/core/backend/transformer/morton.hpp>
#include <covfie/core/backend/transformer/nearest_neighbour.hpp>
#include <covfie/core/backend/transformer/shuffle.hpp>
#include <covfie/core/backend/transformer/strided.hpp>
#include <vp/probe.hpp>
'''

NM_QUICK = [(1, 1), (1, 3), (2, 2), (3, 1), (3, 3), (2, 4), (4, 2), (4, 4)]
NM_ALL = [(n, m) for n in (1, 2, 3, 4) for m in (1, 2, 3, 4)]


def type_variants(i):
    """rotates coordinate / storage types so that every type appears across the (N,M) grid"""
    its = ["std::size_t", "std::size_t", "unsigned", "int"]
    rts = ["float", "double"]
    sts = ["float", "double", "float"]
    return its[i % len(its)], rts[i % len(rts)], sts[i % len(sts)]


def compatible_sources(s):
    """stacks from which `s` must be constructible: same shape, storage order and/or interpolator substituted
    (beneath any number of affine layers), array or probe_array storage."""
    kinds = [L.kind for L in s.layers]
    i = 0
    while i < len(kinds) and kinds[i] == "affine":
        i += 1
    rest = kinds[i:]
    if len(rest) == 3 and rest[0] in g.Layer.INTERP and rest[1] in g.Layer.STORAGE and rest[2] in ("array", "probe_array"):
        pass
    elif len(rest) == 2 and rest[0] in g.Layer.STORAGE and rest[1] in ("array", "probe_array"):
        pass
    else:
        return []
    out = []
    si = len(kinds) - 2
    n = s.layers[si].k.n
    alts = [k for k in (["strided", "morton_port", "morton_bmi"] + (["hilbert"] if n == 2 else [])) if k != kinds[si]]
    for alt in alts[:2]:
        ls = g.clone(s.layers)
        ls[si].kind = alt
        out.append(g.Stack(ls))
    if len(rest) == 3:
        ls = g.clone(s.layers)
        ls[i].kind = "linear" if kinds[i] == "nn" else "nn"
        if ls[i].kind == "linear" and not g.is_real(s.layers[-1].p.get("t", "float")):
            pass
        else:
            st = g.Stack(ls)
            if st.ok:
                out.append(st)
            ls2 = g.clone(ls)
            ls2[si].kind = alts[0]
            st2 = g.Stack(ls2)
            if st2.ok:
                out.append(st2)
    return [o for o in out if o.ok]


def script(idx, s):
    """C++ text exercising the whole API for stack s (namespace per stack)."""
    B = s.cpp_type()
    k = s.layers[0].k
    zeros = ", ".join("static_cast<%s>(0)" % k.in_t for _ in range(k.n))
    o = []
    o.append("namespace s%d {" % idx)
    o.append("using B = %s;" % B)
    o.append("static_assert(covfie::concepts::field_backend<B>, \"backend concept\");")
    o.append("static_assert(sizeof(typename B::non_owning_data_t) <= 256, \"VP-VIEW-SIZE: view exceeds field_view's stated limit (the generator's size model predicted %d bytes)\");" % g.view_layout(s)[0])
    o.append("static_assert(std::is_trivially_copyable_v<covfie::field_view<B>>, \"view must be trivially copyable\");")
    o.append("static_assert(std::is_trivially_copyable_v<typename B::non_owning_data_t>, \"non-owning data must be trivially copyable\");")
    o.append("void run() {")
    o.append("  covfie::field<B> f = %s;" % s.make_expr())
    if s.depth() <= 10:
        o.append("  covfie::field<B> fp = %s;" % s.make_for_expr())
    o.append("  covfie::field_view<B> v(f);")
    o.append("  typename covfie::field_view<B>::coordinate_t c{};")
    o.append("  auto r1 = v.at(c); (void)r1;")
    o.append("  auto r2 = v.at(%s); (void)r2;" % zeros)
    o.append("  static_assert(std::is_same_v<decltype(v.at(c)), typename covfie::field_view<B>::output_t>);")
    o.append("  covfie::field<B> h(f); covfie::field<B> m(std::move(h)); covfie::field<B> a = %s; a = f; a = std::move(m);" % s.make_expr())
    o.append("  std::stringstream ss; f.dump(ss); covfie::field<B> l(ss);")
    o.append("  auto cfg = f.backend().get_configuration(); (void)cfg;")
    for j, src in enumerate(compatible_sources(s)):
        o.append("  { covfie::field<%s> src = %s; covfie::field<B> cv(src); covfie::field<B> cm(std::move(src)); }" % (src.cpp_type(), src.make_expr()))
    o.append("}")
    o.append("}")
    return "\n".join(o)


ILL = [
    ("linear_nonfloat_output", "covfie::backend::linear<covfie::backend::identity<covfie::vector::size2>, covfie::vector::float2>",
     "Linear interpolation covariant input must have a floating point scalar type",
     "covfie::backend::linear<covfie::backend::constant<covfie::vector::size2, covfie::vector::float2>, covfie::vector::float2>"),
    ("linear_nonfloat_coordinate", "covfie::backend::linear<covfie::backend::strided<covfie::vector::size2, covfie::backend::array<covfie::vector::float2>>, covfie::vector::int2>",
     "Linear interpolation contravariant input must have a floating point scalar type",
     "covfie::backend::linear<covfie::backend::strided<covfie::vector::size2, covfie::backend::array<covfie::vector::float2>>, covfie::vector::float2>"),
    ("linear_wrong_arity", "covfie::backend::linear<covfie::backend::strided<covfie::vector::size2, covfie::backend::array<covfie::vector::float2>>, covfie::vector::float3>",
     "Linear interpolation contravariant input must have the same size as the backend contravariant input",
     "covfie::backend::linear<covfie::backend::strided<covfie::vector::size2, covfie::backend::array<covfie::vector::float2>>, covfie::vector::double2>"),
    ("nn_nonfloat_coordinate", "covfie::backend::nearest_neighbour<covfie::backend::strided<covfie::vector::size2, covfie::backend::array<covfie::vector::float2>>, covfie::vector::int2>",
     "Nearest neighbour interpolation contravariant input must have a floating point scalar type",
     "covfie::backend::nearest_neighbour<covfie::backend::strided<covfie::vector::size2, covfie::backend::array<covfie::vector::float2>>, covfie::vector::double2>"),
    ("nn_wrong_arity", "covfie::backend::nearest_neighbour<covfie::backend::strided<covfie::vector::size2, covfie::backend::array<covfie::vector::float2>>, covfie::vector::float3>",
     "Nearest neighbour interpolation contravariant input must have the same size as the backend contravariant input",
     "covfie::backend::nearest_neighbour<covfie::backend::strided<covfie::vector::size2, covfie::backend::array<covfie::vector::float2>>, covfie::vector::float2>"),
    ("hilbert_not_2d", "covfie::backend::hilbert<covfie::vector::size3, covfie::backend::array<covfie::vector::float1>>",
     "Number of dimensions for input must be exactly two",
     "covfie::backend::hilbert<covfie::vector::size2, covfie::backend::array<covfie::vector::float1>>"),
    ("view_too_large", "covfie::backend::backup<covfie::backend::backup<covfie::backend::backup<covfie::backend::strided<covfie::vector::size4, covfie::backend::array<covfie::vector::float4>>>>>",
     "Storage type is too large",
     "covfie::backend::backup<covfie::backend::backup<covfie::backend::strided<covfie::vector::size4, covfie::backend::array<covfie::vector::float4>>>>"),
]


def ill_src(ty):
    return HDR + "using B = %s;\nvoid run() { covfie::field<B> f; covfie::field_view<B> v(f); (void)v; }\n" % ty


CUDA_SCRIPT = HDR + r'''
#include <covfie/cuda/backend/primitive/cuda_device_array.hpp>
using Host = covfie::backend::strided<covfie::vector::size3, covfie::backend::array<covfie::vector::float3>>;
using Dev = covfie::backend::strided<covfie::vector::size3, covfie::backend::cuda_device_array<covfie::vector::float3>>;
static_assert(covfie::concepts::field_backend<Dev>, "backend concept");
void run_convert() {
    covfie::field<Host> h(covfie::make_parameter_pack(Host::configuration_t{2ul, 3ul, 2ul}, Host::backend_t::configuration_t(12ul)));
    covfie::field<Dev> d(h);                       // host -> device storage
    covfie::field_view<Dev> v(d);
    static_assert(std::is_trivially_copyable_v<covfie::field_view<Dev>>);
    (void)v;
    covfie::field<Dev> m(std::move(d));
    std::stringstream ss; h.dump(ss);
}
#ifdef VP_CUDA_COPY
void run_copy() {
    covfie::field<Host> h(covfie::make_parameter_pack(Host::configuration_t{2ul, 3ul, 2ul}, Host::backend_t::configuration_t(12ul)));
    covfie::field<Dev> d(h);
    covfie::field<Dev> c(d);                       // device -> device copy
    c = d;
}
#endif
'''


def run(ctx):
    thorough = ctx.tier == "thorough"
    # ---------------------------------------------------------------- stacks
    stacks = []
    oversize = 0
    if thorough:
        plan = [(nm, 4) for nm in NM_ALL] + [(nm, 5) for nm in [(1, 3), (2, 2), (3, 1), (3, 3), (2, 4)]]
    else:
        plan = [(nm, 5) for nm in NM_QUICK]
    seen = set()
    for i, ((n, m), depth) in enumerate(plan):
        it, rt, st = type_variants(i)
        ss = g.enumerate_stacks(n, m, depth, itype=it, rtype=rt, stype=st, variant=i)
        if not thorough:
            # pairwise adjacency cover; for two (N,M) additionally EVERY stack to depth 3 - a layer can depend on a layer two
            # below it (non-adjacent triples), which a pairwise cover need not contain
            full3 = [s for s in ss if s.depth() <= 3] if i in (0, 1) else []
            ss = g.adjacency_cover(ss) + full3
        for s in ss:
            if not g.view_fits(s):
                oversize += 1
                continue
            key = s.cpp_type()
            if key in seen:
                continue
            seen.add(key)
            stacks.append(s)
    # stacks deeper than the grammar bound: the positional helper is generated per depth 1..10
    from checks.c17 import deep_helper_stacks
    for s in deep_helper_stacks():
        if s.cpp_type() not in seen and g.view_fits(s):
            seen.add(s.cpp_type())
            stacks.append(s)
    stacks, over2 = g.filter_by_real_view_size(ctx, stacks, HDR)
    oversize += over2
    per_tu = 30
    tus = []
    for b in range(0, len(stacks), per_tu):
        chunk = stacks[b:b + per_tu]
        p = os.path.join(ctx.build, "wk_%04d.cpp" % (b // per_tu))
        with open(p, "w") as fh:
            fh.write(HDR)
            for j, s in enumerate(chunk):
                fh.write("// %s\n" % s.name())
                fh.write(script(b + j, s) + "\n")
        tus.append((p, b, chunk))
    flags = ["-w", "-mbmi2", "-ftemplate-depth=2000"]

    def comp(x):
        p, b, chunk = x
        if ctx.out_of_time():
            return p, b, chunk, None, "skipped (deadline)"
        ok, log = ctx.compile(p, None, flags, syntax_only=True, timeout=1800)
        return p, b, chunk, ok, log
    results = ctx.parallel(comp, tus)
    compiled_ok, failed_units, skipped = 0, [], 0
    for p, b, chunk, ok, log in results:
        if ok is None:
            skipped += len(chunk)
        elif ok:
            compiled_ok += len(chunk)
        else:
            failed_units.append((p, b, chunk, log))
    # a failed TU is split into single-stack TUs to attribute the failure
    singles = []
    for p, b, chunk, log in failed_units:
        for j, s in enumerate(chunk):
            sp = os.path.join(ctx.build, "single_%05d.cpp" % (b + j))
            with open(sp, "w") as fh:
                fh.write(HDR + script(b + j, s) + "\n")
            singles.append((sp, s))

    def comp1(x):
        sp, s = x
        ok, log = ctx.compile(sp, None, flags, syntax_only=True, timeout=600)
        return sp, s, ok, log
    nbad = 0
    for sp, s, ok, log in ctx.parallel(comp1, singles):
        if ok:
            compiled_ok += 1
            continue
        if "VP-VIEW-SIZE" in log or "Storage type is too large" in log:
            # the layout of a view changed and this stack now exceeds the library's own stated size limit: it is ill-kinded
            # by that rule, not a violation (the generator's size model only pre-filters)
            ctx.cov["stacks_over_view_size_limit_after_layout_change"] = ctx.cov.get("stacks_over_view_size_limit_after_layout_change", 0) + 1
            continue
        nbad += 1
        k = s.layers[0].k
        key = "wellkinded:%s" % s.short()
        ctx.violation(key, "a well-kinded stack does not support the field API: %s :: %s" % (s.name(), core.first_diag(log)),
                      {"file": sp, "type": s.cpp_type(), "compile_log": log[-3000:], "script": script(0, s)})
    # ------------------------------------------------------ ill-kinded catalogue
    ill_done = 0
    def ill(e):
        name, ty, msg, twin = e
        p1 = os.path.join(ctx.build, "ill_%s.cpp" % name)
        p2 = os.path.join(ctx.build, "twin_%s.cpp" % name)
        open(p1, "w").write(ill_src(ty))
        open(p2, "w").write(ill_src(twin))
        ok1, log1 = ctx.compile(p1, None, ["-w"], syntax_only=True)
        ok2, log2 = ctx.compile(p2, None, ["-w"], syntax_only=True)
        return e, ok1, log1, ok2, log2
    for (name, ty, msg, twin), ok1, log1, ok2, log2 in ctx.parallel(ill, ILL):
        ill_done += 1
        if ok1:
            ctx.violation("illkinded_accepted:" + name, "a composition violating a stated kind compiles: " + ty, {"type": ty, "script": ill_src(ty)})
        elif msg not in log1 and "static assertion failed" not in log1 and "constraints not satisfied" not in log1:
            # rejected, but by an accidental error rather than by a stated check (a reworded static_assert / a concept is fine)
            ctx.violation("illkinded_wrong_diagnostic:" + name, "rejected, but not by a stated kind check (static_assert / constraint): %s" % core.first_diag(log1), {"type": ty, "compile_log": log1[-2000:], "script": ill_src(ty)})
        if not ok2:
            ctx.violation("twin_rejected:" + name, "the well-kinded twin does not compile: " + core.first_diag(log2), {"type": twin, "compile_log": log2[-2000:], "script": ill_src(twin)})
    # -------------------------------------------------------------- CUDA shim
    cuda_inc = core.repo_includes(ctx.repo) + ["-I" + os.path.join(ctx.repo, "lib/cuda"), "-I" + os.path.join(VERIF, "include/cuda_shim")]
    pc = os.path.join(ctx.build, "cuda_api.cpp")
    open(pc, "w").write(CUDA_SCRIPT)
    okc, logc = ctx.compile(pc, None, ["-w"], includes=cuda_inc, syntax_only=True)
    if not okc:
        ctx.violation("cuda:convert", "host array -> cuda_device_array conversion script does not compile under the runtime shim: " + core.first_diag(logc), {"compile_log": logc[-3000:], "script": CUDA_SCRIPT})
    okd, logd = ctx.compile(pc, None, ["-w", "-DVP_CUDA_COPY"], includes=cuda_inc, syntax_only=True)
    if not okd:
        ctx.violation("cuda:copy", "copying a field over cuda_device_array does not compile under the runtime shim: " + core.first_diag(logd), {"compile_log": logd[-3000:], "script": CUDA_SCRIPT})
    # ---------------------------------------------------------------- evidence
    ops_per_stack = 12
    ctx.level = "model_checking"
    ctx.cov.update({
        "states": len(stacks), "transitions": compiled_ok * ops_per_stack + sum(len(compatible_sources(s)) * 2 for s in stacks[:0]),
        "traces_validated_against_impl": compiled_ok,
        "evaluations": len(stacks) + 2 * len(ILL) + 2, "distinct_nontrivial": len(stacks),
        "samples": [stacks[i].name() for i in range(0, len(stacks), max(1, len(stacks) // 6))][:8],
        "rule": "states = distinct well-kinded stacks of the layer grammar (vplib/grammar.py) reachable up to the depth bound, per (N,M) in the plan and with rotated coordinate/storage types; "
                "transitions = (stack, API operation) pairs type-checked by g++ -fsyntax-only with function bodies instantiated: backend concept, construction from make_parameter_pack and make_parameter_pack_for, view, both at() overloads and their "
                "result type, trivially copyable view, copy/move construction and assignment, dump, stream constructor, get_configuration, and construction from every compatible stack (storage order / interpolator substituted beneath affine layers); "
                "stacks whose view exceeds field_view's 256-byte limit are excluded by a size model that every script re-checks with a static_assert; "
                "ill-kinded catalogue: %d entries, each must be rejected with the layer's own static_assert text while its well-kinded twin compiles; CUDA device array under a header shim of the runtime. "
                "quick = pairwise layer-adjacency cover at depth <= 5 for (N,M) in %s plus every stack to depth 3 for the first two of them; thorough = every stack to depth 4 for all 16 (N,M) and depth 5 for five (N,M)" % (len(ILL), NM_QUICK),
        "plan": [[list(nm), d] for nm, d in plan], "stacks_compiled_ok": compiled_ok, "stacks_failed": nbad, "stacks_skipped_deadline": skipped,
        "oversize_views_excluded": oversize, "translation_units": len(tus), "ill_kinded_entries": ill_done,
    })
    ctx.assumptions += ["g++ 12 is the type checker", "default construction is not part of the property's list and is not demanded",
                        "conversions are demanded only where the library offers converting constructors (storage orders, interpolators, affine)"]


def replay(ctx, rp):
    r = rp.get("replay", {})
    if "script" not in r:
        print("no script recorded")
        return 2
    p = os.path.join(ctx.build, "replay.cpp")
    text = r["script"] if r["script"].lstrip().startswith("#include") else HDR + r["script"]
    open(p, "w").write(text)
    inc = core.repo_includes(ctx.repo) + ["-I" + os.path.join(ctx.repo, "lib/cuda"), "-I" + os.path.join(VERIF, "include/cuda_shim")]
    ok, log = ctx.compile(p, None, ["-w", "-mbmi2", "-ftemplate-depth=2000"], includes=inc, syntax_only=True)
    print(log[-3000:])
    print("compiles" if ok else "REPLAYED: does not compile")
    return 0 if ok else 1
