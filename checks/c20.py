"""C20 compile-time sort / permutation predicate: exhaustive static_asserts generated from a Python reference."""
import itertools, os, re
from vplib import core
from vplib.core import VERIF

HDR = "#include <utility>\n#include <type_traits>\n#include <covfie/core/utility/static_permutation.hpp>\nusing namespace covfie::utility;\ntemplate<std::size_t... I> using S = std::index_sequence<I...>;\n"


def seqs(maxlen, alpha):
    for n in range(maxlen + 1):
        for t in itertools.product(range(alpha), repeat=n):
            yield t


def fmt(t):
    return "S<" + ",".join("%dul" % x if x < 2**31 else "%dull" % x for x in t) + ">"


def sort_assert(t):
    return "static_assert(std::is_same_v<typename sort_index_sequence<%s>::type, %s>);" % (fmt(t), fmt(tuple(sorted(t))))


def perm_assert(a, b):
    exp = sorted(a) == sorted(b)
    return "static_assert(%sis_permutation<%s, %s>::value);" % ("" if exp else "!", fmt(a), fmt(b))


def special_sequences():
    big = 2**64 - 1
    out = [tuple(range(11, -1, -1)), tuple([7] * 12), tuple(range(12)), (big, 0, big - 1, 1, big, 0),
           (big,), (big, big), tuple([3, 1, 2] * 6), tuple(range(0, 40, 3))[::-1], (2**32, 2**32 - 1, 2**32 + 1, 2**63, 2**63 - 1),
           tuple((i * 7919) % 23 for i in range(24)), tuple((i * 104729) % 1000003 for i in range(20))]
    return out


def run(ctx):
    thorough = ctx.tier == "thorough"
    sl, sa = (6, 5) if thorough else (4, 5)
    pl, pa = (4, 4) if thorough else (3, 4)
    cases = []  # (kind, text, assert_line)
    for t in seqs(sl, sa):
        cases.append(("sort", str(t), sort_assert(t)))
    ps = list(seqs(pl, pa))
    for a in ps:
        for b in ps:
            cases.append(("perm", "%s ~ %s" % (a, b), perm_assert(a, b)))
    sp = special_sequences()
    for t in sp:
        cases.append(("sort-special", str(t), sort_assert(t)))
        cases.append(("perm-special", "%s ~ reversed" % (t,), perm_assert(t, t[::-1])))
        if len(t) > 1:
            u = (t[0],) + t[:-1]  # drop last, duplicate first: same length, different multiset unless all equal
            cases.append(("perm-special", "%s ~ %s" % (t, u), perm_assert(t, u)))
    nchunks = 16
    chunks = [cases[i::nchunks] for i in range(nchunks)]
    files = []
    for i, ch in enumerate(chunks):
        p = os.path.join(ctx.build, "c20_%02d.cpp" % i)
        with open(p, "w") as fh:
            fh.write(HDR)
            for c in ch:
                fh.write(c[2] + "\n")
        files.append((p, ch))
    def comp(x):
        p, ch = x
        ok, log = ctx.compile(p, None, ["-w", "-ftemplate-depth=2000", "-fmax-errors=50"], syntax_only=True, timeout=1500)
        return p, ch, ok, log
    nfail = 0
    for p, ch, ok, log in ctx.parallel(comp, files):
        if ok:
            continue
        lines = set(int(m.group(1)) for m in re.finditer(re.escape(p) + r":(\d+):\d+: error: static assertion failed", log))
        nhdr = HDR.count("\n")
        if not lines:
            ctx.violation("compile", "generated translation unit does not compile: " + core.first_diag(log), {"file": p, "compile_log": log[-3000:]})
            continue
        for ln in sorted(lines)[:10]:
            kind, text, line = ch[ln - nhdr - 1]
            nfail += 1
            ctx.violation(kind.split("-")[0], "compiler rejects: %s   [%s]" % (line[:300], text[:200]), {"assert": line, "case": text})
    nontriv = sum(1 for c in cases if len(c[1]) > 6)
    ctx.cov.update({
        "evaluations": len(cases),
        "distinct_nontrivial": len(set(c[2] for c in cases if c[0] != "sort" or len(eval(c[1])) >= 2)),
        "rule": "sort: every sequence of length <= %d over {0..%d}; predicate: every ordered pair of sequences of length <= %d over {0..%d}; plus %d deterministic long / large-valued sequences (SIZE_MAX, descending, all-equal, 2^32 and 2^63 neighbours); "
                "expected results computed by Python's sorted(); one static_assert per case, compiled with g++ -fsyntax-only in %d translation units; non-trivial = sequences of length >= 2 (all predicate pairs count)" % (sl, sa - 1, pl, pa - 1, len(sp), nchunks),
        "samples": [cases[777][2], cases[len(cases) // 2][2], cases[-1][2][:300]],
        "sort_cases": sum(1 for c in cases if c[0].startswith("sort")),
        "predicate_cases": sum(1 for c in cases if c[0].startswith("perm")),
        "translation_units": nchunks,
    })
    ctx.level = "exploration"
    ctx.assumptions += ["g++ 12 is the evaluator of the metaprograms", "no seeded random sequences: replaced by the deterministic special set"]


def replay(ctx, rp):
    r = rp.get("replay", {})
    if "assert" not in r:
        print("no assert recorded")
        return 2
    p = os.path.join(ctx.build, "replay.cpp")
    with open(p, "w") as fh:
        fh.write(HDR + r["assert"] + "\n")
    ok, log = ctx.compile(p, None, ["-w", "-ftemplate-depth=2000"], syntax_only=True)
    print(log[-2000:])
    if not ok:
        print("REPLAYED VIOLATION: static_assert still fails")
    return 0 if ok else 1
