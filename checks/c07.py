"""C07 files are portable across interpolation method, storage precision and revisions; streams follow the format grammar."""
import os
from vplib import core, iogen
from vplib.core import VERIF
from checks.c06 import build, run_mode, FLAGS_ASAN, FLAGS_O2

GOLD = os.path.join(VERIF, "golden")


def run(ctx):
    exe, stacks = build(ctx, "asan", FLAGS_ASAN)
    total, tg = {}, {}
    if exe:
        total = run_mode(ctx, exe, ["pairs", ctx.tier], "pairs")
        tg = run_mode(ctx, exe, ["golden-check", GOLD], "golden")
    ngold = len([f for f in os.listdir(GOLD) if f.endswith(".bin")]) if os.path.isdir(GOLD) else 0
    checked = int(tg.get("evaluations", 0))
    if ngold and checked == 0 and exe:
        ctx.violation("golden:none_matched", "none of the %d committed golden files belongs to a stack of the current catalogue" % ngold, {})
    ctx.level = "model_checking"
    ctx.cov.update({
        "states": int(total.get("states", 0)) + checked, "transitions": int(total.get("transitions", 0)) + int(tg.get("transitions", 0)),
        "traces_validated_against_impl": int(total.get("evaluations", 0)) + checked,
        "evaluations": int(total.get("evaluations", 0)) + checked, "distinct_nontrivial": int(total.get("distinct_nontrivial", 0)) + int(tg.get("distinct_nontrivial", 0)),
        "compatible_ordered_pairs": total.get("compatible_ordered_pairs"), "scalars_widened": total.get("scalars_widened"), "scalars_narrowed": total.get("scalars_narrowed"),
        "scalars_same_width": total.get("scalars_same_width"), "golden_files_committed": ngold, "golden_files_checked": checked,
        "stacks_without_golden_file": tg.get("stacks_without_golden_file", 0), "catalogue_stacks": len(stacks),
        "samples": ["strided_array (float) -> linear_strided_array (double)", "golden/" + (sorted(os.listdir(GOLD))[0] if ngold else "(none)")],
        "rule": "(a) every ordered pair of catalogue stacks whose on-disk footprint (sequence of tags, configuration sizes, M) is identical and which therefore differ only in footprint-free layers (interpolator, its coordinate precision, shuffle/cast/dereference) "
                "and/or the float width of the array: the writer's dump of a finite-value alphabet (exact ties between adjacent floats, one double-ulp either side, float-subnormal range, +-FLT_MAX and values rounding to it) x rotations (plus the several-KiB, 1-cell and tight-storage variants of the writer's stack) is loaded by the reader; "
                "oracle on the two dumps dissected by the E7 automaton: configuration blobs byte-identical, count equal, scalars bit-identical (same width), exactly equal (widening) or equal to a software round-to-nearest-even narrowing; "
                "(b) committed golden files (written by the pinned revision + its fix: commits, recipe = catalogue stack + configuration variant 0 + finite alphabet): each loads, re-dumps to the same bytes, is accepted by E7, and the field rebuilt from the recipe "
                "dumps to exactly the golden bytes; (c) grammar conformance of every stream is part of C06; states = compatible pairs + golden files",
    })
    ctx.assumptions += ["golden files cover the stacks of the quick catalogue; thorough-only stacks have no golden file (counted)", "little-endian host"]


def replay(ctx, rp):
    exe, _ = build(ctx, "asan", FLAGS_ASAN)
    if not exe:
        return 1
    r = rp.get("replay", {})
    case = (r.get("case") or "").split(" ")[0]
    argv = r.get("argv", ["pairs", "quick"])
    run_mode(ctx, exe, argv, "replay", env={"VP_ONLY_CASE": case})
    for v in ctx.violations:
        print("REPLAYED VIOLATION key=%s :: %s" % (v.key, v.detail))
    return 1 if ctx.violations else 0
