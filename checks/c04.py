"""C04 nearest neighbour returns a lattice point within 1/2 per component (float and double coordinates)."""
import os
from vplib import core
from vplib.core import Job, VERIF
SRC = os.path.join(VERIF, "harness/c04_nearest.cpp")

def run(ctx):
    js = [Job("nn_asan", SRC, ["-O1", "-w", "-fsanitize=address,undefined", "-fno-sanitize-recover=undefined"], [], [ctx.tier, "all"], timeout=1200),
          Job("nn_O2", SRC, ["-O2", "-w", "-DNDEBUG"], [], [ctx.tier, "all"], timeout=1200, distinct=False)]
    total = core.build_and_run(ctx, js)
    ds = set(j.stats.get("groups", {}).get("nn/all", {}).get("digest") for j in js if j.stats)
    if len(ds) > 1:
        ctx.violation("digest", "assert-enabled and NDEBUG builds choose different lattice points", {})
    core.set_generic_cov(ctx, total,
        "part A: nearest_neighbour<identity<long^N>, R^N> for N=1..4, R in {float,double}: N-fold product of a per-axis alphabet (sizes in axis_alphabet_*): every integer and half-integer of (-1/2, 8.5) +-2ulp, -0.0, denormals, "
        "exponent ladder 2^k + {-1,-1/2,0,1/2,1} +-1ulp up to 2^30 (float) / 2^61 (double), the largest half-integers of each type; oracle 2|nc-c|<=1 in binary128. "
        "part B: nn over strided / Morton / Hilbert array fields, every extent vector <= B_N, per-axis {i-1/2+ulp, i-1/4, i, i+1/2-ulp, exact ties with both neighbours in range}; the returned value encodes the lattice index. "
        "distinct_nontrivial = distinct coordinates (A) + extent vectors (B) of one build; the second build repeats them", {})
    ctx.assumptions += ["default rounding mode (round-to-nearest-even)", "NaN coordinates excluded"]

def replay(ctx, rp):
    return core.generic_replay(ctx, rp)
