"""C19 nd_map visits every index exactly once."""
import os
from vplib import core
from vplib.core import Job, VERIF
SRC = os.path.join(VERIF, "harness/c19_ndmap.cpp")

def run(ctx):
    js = [Job("ndmap_asan", SRC, ["-O1", "-w", "-fsanitize=address,undefined", "-fno-sanitize-recover=undefined"], [], [ctx.tier]),
          Job("ndmap_O2", SRC, ["-O2", "-w", "-DNDEBUG"], [], [ctx.tier], distinct=False)]
    total = core.build_and_run(ctx, js)
    ds = set(j.stats.get("groups", {}).get("nd_map", {}).get("digest") for j in js if j.stats)
    if len(ds) > 1:
        ctx.violation("digest", "builds disagree on the number of callbacks", {})
    core.set_generic_cov(ctx, total,
        "every extent vector with extents in 0..B_N for N=1..5 (quick B=8,5,4,3,3; thorough 40,12,7,5,4), size_t and int tuples, plus boxes with one long axis (37, 100/1000) and the others in {0,1,2}; "
        "oracle: per-cell visit count == 1, no tuple outside the box, callbacks == cells; non-trivial = boxes with more than one cell; transitions = callbacks observed",
        {})
    ctx.cov["transitions_callbacks"] = total.get("transitions", 0)

def replay(ctx, rp):
    return core.generic_replay(ctx, rp)
