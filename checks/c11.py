"""C11 out-of-range lookups return the default without touching the backend."""
import os
from vplib import core
from vplib.core import Job, VERIF
SRC = os.path.join(VERIF, "harness/c10_clamp_backup.cpp")
WHAT = "backup"
RULE = ("backup<probe_fn<T^N, O^M>> for N, M in 1..4 independently, (T,O) in {(int,float),(size_t,float),(float,float),(double,double),(long,double),(unsigned,double),(double,float),(float,int)}, every box in {(0,0),(0,2),(1,3)}^N x the N-fold product of the "
        "per-axis alphabet (as C10: extremes, values equal and adjacent to each bound, infinities, signed zeros); oracle: outside the closed box => result == default and the probe's query counter did not move; "
        "inside => exactly one query, at exactly that coordinate, result == the probe's value; a non-trivial case is one (N, M, types, box)")

def run(ctx):
    js = []
    for n in (1, 2, 3, 4):
        js.append(Job("%s_asan_N%d" % (WHAT, n), SRC, ["-O1", "-w", "-fsanitize=address,undefined", "-fno-sanitize-recover=undefined"], ["VP_N=%d" % n, "VP_ONLY_BACKUP"], [WHAT, ctx.tier], timeout=1200))
        js.append(Job("%s_O2_N%d" % (WHAT, n), SRC, ["-O2", "-w", "-DNDEBUG"], ["VP_N=%d" % n, "VP_ONLY_BACKUP"], [WHAT, ctx.tier], timeout=1200, distinct=False))
    total = core.build_and_run(ctx, js)
    for n in (1, 2, 3, 4):
        ds = set(j.stats.get("groups", {}).get("%s/N%d" % (WHAT, n), {}).get("digest") for j in js if j.name.endswith("_N%d" % n) and j.stats)
        if len(ds) > 1:
            ctx.violation("digest:N%d" % n, "assert-enabled and NDEBUG builds disagree", {})
    core.set_generic_cov(ctx, total, RULE, {})
    ctx.assumptions += ["NaN coordinates excluded", "boxes with lo <= hi only"]

def replay(ctx, rp):
    return core.generic_replay(ctx, rp)
