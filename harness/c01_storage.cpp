// C01 (and the sizing clause of C18): storage-order layers behave as an N-d array.
// Build parameters: -DVP_LAYER=<tag> -DVP_N=<n> [-DVP_QUICK]
//   pass A (probe): index map through the library's converting constructor and through a
//                   parameter pack with the documented length: in-bounds + injective + value == model
//   pass B (real array backend, ASan build): write/read-back, overwrite one cell, re-read all others
#include <algorithm>
#include <cstdlib>
#include <vp/layers.hpp>
#include <vp/probe.hpp>
#include <vp/report.hpp>
#include <vp/xplore.hpp>

#ifndef VP_LAYER
#define VP_LAYER L_strided
#endif
#ifndef VP_N
#define VP_N 2
#endif

using namespace vp;

static size_t g_last_idx, g_last_size, g_n_access;
static const void * g_last_base;
static void hook(const void * base, size_t idx, size_t size)
{
    g_last_idx = idx;
    g_last_size = size;
    g_last_base = base;
    ++g_n_access;
}

static std::string only_case;

template <class L, size_t N, size_t M, class I, class T>
static void run_cfg(Report & R, size_t B)
{
    using In = cv::vector_d<I, N>;
    using Out = cv::vector_d<T, M>;
    using Src = cb::strided<In, cb::array<Out>>;
    using DstP = typename L::template apply<In, probe_array<Out>>;
    using DstA = typename L::template apply<In, cb::array<Out>>;
    const std::string cfg = std::string(L::name) + "/N" + std::to_string(N) + "/M" + std::to_string(M) + "/" + tname<I>::v + "/" + tname<T>::v;
    const std::string kcfg = std::string(L::name) + ":N" + std::to_string(N);
    uint64_t max_len_seen = 0, max_idx_seen = 0;

    for_each_extent<N>(1, B, [&](const std::array<size_t, N> & ext) {
        const std::string cas = cfg + "/ext" + vec_str(ext, N);
        if (!only_case.empty() && only_case.find(cas) != 0) return;
        const size_t cells = product<N>(ext);
        auto sizes = to_cov<size_t, N>(ext);
        // ---- source: row-major field over the real array, value encodes the coordinate
        covfie::field<Src> src(covfie::make_parameter_pack(typename Src::configuration_t(sizes), typename Src::backend_t::configuration_t{cells}));
        {
            covfie::field_view<Src> sv(src);
            size_t lin = 0;
            for_each_coord<N>(ext, [&](const std::array<size_t, N> & c) {
                auto & cell = sv.at(to_cov<I, N>(c));
                for (size_t j = 0; j < M; ++j) cell[j] = static_cast<T>(1.1 + double(j) + 8.3 * double(lin));
                ++lin;
            });
        }
        // ---- pass A1: converting constructor into probe storage
        {
            covfie::field<DstP> dst(src);
            covfie::field_view<DstP> dv(dst);
            const size_t len = dst.backend().get_backend().get_configuration()[0];
            const size_t doc = L::template doc_len<N>(ext);
            max_len_seen = std::max<uint64_t>(max_len_seen, len);
            // the exact length is the library's business (C18 only asks for "more cells than the largest curve position",
            // which the in-bounds test below decides); it is recorded, not demanded
            if (len != doc) R.counters["storage_length_differs_from_documented"]++;
            auto got_sizes = dst.backend().get_configuration();
            for (size_t k = 0; k < N; ++k)
                if (got_sizes[k] != ext[k]) R.viol("extents:" + kcfg, "converted field reports different extents", cas);
            std::vector<char> seen(len, 0);
            size_t lin = 0;
            g_access_hook = hook;
            for_each_coord<N>(ext, [&](const std::array<size_t, N> & c) {
                g_n_access = 0;
                auto & cell = dv.at(to_cov<I, N>(c));
                ++R.evaluations;
                R.observe(g_last_idx);
                const std::string cc = cas + "/c" + vec_str(c, N);
                if (g_n_access != 1) R.counters["lookups_with_more_than_one_storage_access"]++;  // recorded, not demanded
                if (g_last_idx >= len) {
                    R.viol("oob:" + kcfg, "flat index " + std::to_string(g_last_idx) + " >= storage length " + std::to_string(len), cc);
                } else {
                    max_idx_seen = std::max<uint64_t>(max_idx_seen, g_last_idx);
                    if (seen[g_last_idx]) R.viol("alias:" + kcfg, "flat index " + std::to_string(g_last_idx) + " is shared by two coordinates", cc);
                    seen[g_last_idx] = 1;
                    for (size_t j = 0; j < M; ++j)
                        if (cell[j] != static_cast<T>(1.1 + double(j) + 8.3 * double(lin))) R.viol("convvalue:" + kcfg, "converted field holds a different value", cc);
                }
                ++lin;
            });
            g_access_hook = nullptr;
            if (len <= max_idx_seen && cells) { /* reported above as oob */ }
        }
        // ---- pass A2: parameter pack with the documented length, write/read through views
        {
            const size_t doc = L::template doc_len<N>(ext);
            covfie::field<DstP> f(covfie::make_parameter_pack(typename DstP::configuration_t(sizes), typename DstP::backend_t::configuration_t{doc}));
            covfie::field_view<DstP> v(f);
            std::vector<char> seen(doc, 0);
            g_access_hook = hook;
            size_t lin = 0;
            bool bad = false;
            for_each_coord<N>(ext, [&](const std::array<size_t, N> & c) {
                auto & cell = v.at(to_cov<I, N>(c));
                ++R.evaluations;
                const std::string cc = cas + "/c" + vec_str(c, N);
                if (g_last_idx >= doc) {
                    R.viol("oob:" + kcfg, "flat index " + std::to_string(g_last_idx) + " >= documented length " + std::to_string(doc), cc);
                    bad = true;
                } else {
                    if (seen[g_last_idx]) {
                        R.viol("alias:" + kcfg, "flat index " + std::to_string(g_last_idx) + " is shared by two coordinates", cc);
                        bad = true;
                    }
                    seen[g_last_idx] = 1;
                    for (size_t j = 0; j < M; ++j) cell[j] = static_cast<T>(3.1 + double(j) + 8.3 * double(lin));
                }
                ++lin;
            });
            lin = 0;
            if (!bad)
                for_each_coord<N>(ext, [&](const std::array<size_t, N> & c) {
                    auto & cell = v.at(to_cov<I, N>(c));
                    for (size_t j = 0; j < M; ++j)
                        if (cell[j] != static_cast<T>(3.1 + double(j) + 8.3 * double(lin))) R.viol("readback:" + kcfg, "value read back differs from value written", cas + "/c" + vec_str(c, N));
                    ++lin;
                });
            g_access_hook = nullptr;
        }
        // ---- pass B: real array backend; O(cells^2) non-interference
        {
            const size_t doc = L::template doc_len<N>(ext);
            covfie::field<DstA> f(covfie::make_parameter_pack(typename DstA::configuration_t(sizes), typename DstA::backend_t::configuration_t{doc}));
            covfie::field_view<DstA> v(f);
            std::vector<std::array<size_t, N>> coords;
            for_each_coord<N>(ext, [&](const std::array<size_t, N> & c) { coords.push_back(c); });
            std::vector<T> model(cells * M);
            for (size_t a = 0; a < cells; ++a) {
                auto & cell = v.at(to_cov<I, N>(coords[a]));
                for (size_t j = 0; j < M; ++j) cell[j] = model[a * M + j] = static_cast<T>(5 + j + 8 * a);
            }
            bool stop = false;
            for (size_t w = 0; w < cells && !stop; ++w) {
                // overwrite coordinate w (through the variadic overload where available), then read everything
                {
                    auto & cell = v.at(to_cov<I, N>(coords[w]));
                    for (size_t j = 0; j < M; ++j) cell[j] = model[w * M + j] = static_cast<T>(-(7.0 + j + 8 * w));
                }
                for (size_t a = 0; a < cells; ++a) {
                    const auto & cell = v.at(to_cov<I, N>(coords[a]));
                    ++R.evaluations;
                    for (size_t j = 0; j < M; ++j)
                        if (cell[j] != model[a * M + j]) {
                            R.viol("interfere:" + kcfg, "after writing " + vec_str(coords[w], N) + " the value at " + vec_str(coords[a], N) + " is " + std::to_string(cell[j]) + ", model " + std::to_string(model[a * M + j]), cas);
                            stop = true;
                        }
                }
            }
            R.states += cells;
        }
        ++R.nontrivial;  // one distinct (configuration, extent vector) explored completely
        if (R.samples.size() < 3 && cells > 3) R.sample(cas + " cells=" + std::to_string(cells));
    });
    R.counters["max_storage_len"] = std::max<uint64_t>(R.counters["max_storage_len"], max_len_seen);
    R.counters["max_curve_index"] = std::max<uint64_t>(R.counters["max_curve_index"], max_idx_seen);
    R.counters["configurations"] += 1;
}

// beyond the exhaustive bound: a deterministic set of large extent vectors (power-of-two boundaries, strongly non-square),
// index map only (probe backend): every coordinate in bounds and no two coordinates on one cell
template <class L, size_t N>
static void large_pass(Report & R)
{
    using In = cv::vector_d<std::size_t, N>;
    using DstP = typename L::template apply<In, probe_array<cv::float1>>;
    const std::string kcfg = std::string(L::name) + ":N" + std::to_string(N);
    std::vector<std::array<size_t, N>> exts;
    if constexpr (N == 1) exts = {{65535}, {65536}, {65537}, {(size_t(1) << 20) + 1}};
    if constexpr (N == 2) exts = {{257, 3}, {3, 1025}, {1025, 1025}, {1, 4097}, {513, 255}};
    if constexpr (N == 3) exts = {{65, 2, 2}, {3, 2, 129}, {33, 65, 17}};
    if constexpr (N == 4) exts = {{17, 2, 1, 3}, {2, 2, 2, 33}, {9, 17, 5, 3}};
    for (auto & ext : exts) {
        const std::string cas = std::string(L::name) + "/N" + std::to_string(N) + "/large/ext" + vec_str(ext, N);
        if (!only_case.empty() && only_case.find(cas) != 0) continue;
        const size_t doc = L::template doc_len<N>(ext);
        covfie::field<DstP> f(covfie::make_parameter_pack(typename DstP::configuration_t(to_cov<size_t, N>(ext)), typename DstP::backend_t::configuration_t{doc}));
        covfie::field_view<DstP> v(f);
        std::vector<bool> seen(doc, false);
        g_access_hook = hook;
        bool stop = false;
        for_each_coord<N>(ext, [&](const std::array<size_t, N> & c) {
            if (stop) return;
            v.at(to_cov<size_t, N>(c));
            ++R.evaluations;
            if (g_last_idx >= doc) {
                R.viol("oob:" + kcfg, "flat index " + std::to_string(g_last_idx) + " >= documented length " + std::to_string(doc), cas + "/c" + vec_str(c, N));
                stop = true;
            } else if (seen[g_last_idx]) {
                R.viol("alias:" + kcfg, "flat index " + std::to_string(g_last_idx) + " is shared by two coordinates", cas + "/c" + vec_str(c, N));
                stop = true;
            } else {
                seen[g_last_idx] = true;
            }
        });
        g_access_hook = nullptr;
        ++R.nontrivial;
        R.counters["large_extent_vectors"]++;
    }
}

template <class L, size_t N, size_t M, class T>
static void run_I(Report & R, size_t B)
{
    run_cfg<L, N, M, std::size_t, T>(R, B);
    run_cfg<L, N, M, unsigned, T>(R, B);
    run_cfg<L, N, M, int, T>(R, B);
}
template <class L, size_t N, size_t M>
static void run_T(Report & R, size_t B)
{
    run_I<L, N, M, float>(R, B);
#ifndef VP_QUICK
    run_I<L, N, M, double>(R, B);
#endif
}

int main(int argc, char ** argv)
{
    size_t B = argc > 1 ? std::strtoul(argv[1], nullptr, 10) : 3;
    if (const char * oc = std::getenv("VP_ONLY_CASE")) only_case = oc;
    Report R(std::string(VP_LAYER::name) + "/N" + std::to_string(VP_N));
    run_T<VP_LAYER, VP_N, 1>(R, B);
    run_T<VP_LAYER, VP_N, 3>(R, B);
    large_pass<VP_LAYER, VP_N>(R);
#ifndef VP_QUICK
    run_T<VP_LAYER, VP_N, 2>(R, B);
    run_T<VP_LAYER, VP_N, 4>(R, B);
#endif
#ifdef __BMI2__
    R.infos["bmi2"] = "yes";
#else
    R.infos["bmi2"] = "no";
#endif
    R.emit();
    return 0;
}
