// C05 (CUDA clause, reduced assurance): host array -> cuda_device_array storage under a host shim of the CUDA runtime.
#include <vp/layers.hpp>
#include <vp/report.hpp>
#include <vp/xplore.hpp>

#include <covfie/cuda/backend/primitive/cuda_device_array.hpp>

using namespace vp;

template <class L, size_t N, size_t M, class T>
static void one(Report & R, const std::array<size_t, N> & ext)
{
    using In = cv::vector_d<std::size_t, N>;
    using Host = cb::strided<In, cb::array<cv::vector_d<T, M>>>;
    using Dev = typename L::template apply<In, cb::cuda_device_array<cv::vector_d<T, M>>>;
    using HostL = typename L::template apply<In, cb::array<cv::vector_d<T, M>>>;
    const std::string key = std::string("cuda:") + L::name + ":N" + std::to_string(N);
    const std::string cas = key + "/M" + std::to_string(M) + "/" + tname<T>::v + "/ext" + vec_str(ext, N);
    const size_t cells = product<N>(ext);
    covfie::field<Host> h(covfie::make_parameter_pack(typename Host::configuration_t(to_cov<size_t, N>(ext)), typename Host::backend_t::configuration_t{cells}));
    {
        covfie::field_view<Host> v(h);
        size_t lin = 0;
        for_each_coord<N>(ext, [&](const std::array<size_t, N> & c) {
            auto & cell = v.at(to_cov<size_t, N>(c));
            for (size_t j = 0; j < M; ++j) cell[j] = static_cast<T>(0.5 + double(j) * 100 + double(lin));
            ++lin;
        });
    }
    covfie::field<HostL> hl(h);  // the same layout on the host: the device buffer must be byte-identical to it
    const size_t len = hl.backend().get_backend().get_configuration()[0];
    using vec_t = covfie::array::array<T, M>;
    auto check_dev = [&](const covfie::field<Dev> & d, const char * what) {
        ++R.evaluations;
        auto sz = d.backend().get_configuration();
        for (size_t k = 0; k < N; ++k)
            if (sz[k] != ext[k]) R.viol("extents:" + key, std::string(what) + ": device field reports different extents", cas);
        if (d.backend().get_backend().get_configuration()[0] != len) {
            R.viol("length:" + key, std::string(what) + ": device storage length differs from the host layout's", cas);
            return;
        }
        std::vector<vec_t> back(len);
        covfie::field_view<Dev> dv(d);
        typename Dev::backend_t::non_owning_data_t inner = dv.backend().get_backend();
        if (cudaMemcpy(back.data(), inner.m_ptr, len * sizeof(vec_t), cudaMemcpyDeviceToHost) != cudaSuccess) {
            R.viol("devptr:" + key, std::string(what) + ": the view's pointer is not a device allocation of the expected length", cas);
            return;
        }
        typename HostL::backend_t::non_owning_data_t hv(hl.backend().get_backend());
        for (size_t i = 0; i < len; ++i)
            for (size_t j = 0; j < M; ++j) {
                R.observe(fnv_of(back[i][j]));
                if (!(back[i][j] == hv.at(i)[j])) {
                    R.viol("value:" + key, std::string(what) + ": device cell " + std::to_string(i) + " differs from the host layout", cas);
                    return;
                }
            }
    };
    const size_t live0 = vp_cuda::registry().size();
    {
        covfie::field<Dev> d(h);
        ++R.transitions;
        check_dev(d, "host->device conversion");
        covfie::field<Dev> c(d);
        ++R.transitions;
        check_dev(c, "device->device copy construction");
        check_dev(d, "source after copy");
        covfie::field<Dev> e(h);
        e = d;
        ++R.transitions;
        check_dev(e, "device->device copy assignment");
        covfie::field<Dev> m(std::move(c));
        ++R.transitions;
        check_dev(m, "move construction");
        e = std::move(m);
        ++R.transitions;
        check_dev(e, "move assignment");
    }
    if (vp_cuda::registry().size() != live0) R.viol("leak:" + key, std::to_string(vp_cuda::registry().size() - live0) + " device allocation(s) still live after all fields were destroyed", cas);
    if (vp_cuda::g_bad_calls) {
        R.viol("badcall:" + key, "the runtime shim rejected " + std::to_string(vp_cuda::g_bad_calls) + " call(s) (wrong memcpy kind for the pointers given, or free of a non-device pointer)", cas);
        vp_cuda::g_bad_calls = 0;
    }
    ++R.nontrivial;
    ++R.states;
}

template <class L, size_t N>
static void all(Report & R, size_t B)
{
    for_each_extent<N>(1, B, [&](const std::array<size_t, N> & e) {
        one<L, N, 1, float>(R, e);
        one<L, N, 3, double>(R, e);
    });
}

int main(int argc, char ** argv)
{
    bool thorough = argc > 1 && std::string(argv[1]) == "thorough";
    Report R("cuda_shim");
    all<L_strided, 1>(R, thorough ? 17 : 5);
    all<L_strided, 2>(R, thorough ? 6 : 3);
    all<L_strided, 3>(R, thorough ? 4 : 2);
    all<L_morton_port, 2>(R, thorough ? 6 : 3);
    all<L_morton_port, 3>(R, thorough ? 3 : 2);
    all<L_hilbert, 2>(R, thorough ? 6 : 3);
    R.sample("strided<size3, array<float3>> -> strided<size3, cuda_device_array<float3>> under the runtime shim, then d2d copy / assign / move, D2H read-back");
    R.emit();
    return 0;
}
