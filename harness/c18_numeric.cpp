// C18: round_pow2 / ipow exhaustive over small widths; boundary alphabet at 64 bits.
#include <atomic>
#include <cstdlib>
#include <thread>
#include <vp/report.hpp>

#include <covfie/core/utility/numeric.hpp>

using covfie::utility::ipow;
using covfie::utility::round_pow2;

template <typename T>
static T ref_round(T i)
{
    // least power of two >= i, by bit scan
    if (i <= 1) {
        return 1;
    }
    unsigned long long v = static_cast<unsigned long long>(i) - 1;
    int hb = 63 - __builtin_clzll(v);
    return static_cast<T>(1ull << (hb + 1));
}

template <typename T>
static T ref_pow(T b, unsigned long long e)
{
    // b^e mod 2^w by repeated multiplication (in unsigned 64-bit, truncated each step)
    unsigned long long r = 1, bb = b;
    const unsigned long long mask = (sizeof(T) == 8) ? ~0ull : ((1ull << (8 * sizeof(T))) - 1);
    for (unsigned long long k = 0; k < e; ++k) {
        r = (r * bb) & mask;
    }
    return static_cast<T>(r);
}
template <typename T>
static T ref_pow_fast(T b, unsigned long long e)
{
    // for huge exponents: use the period structure: square-and-multiply written MSB-first (independent of the
    // library's LSB-first loop), all arithmetic in unsigned 64-bit then masked.
    const unsigned long long mask = (sizeof(T) == 8) ? ~0ull : ((1ull << (8 * sizeof(T))) - 1);
    unsigned long long r = 1;
    for (int bit = 63; bit >= 0; --bit) {
        r = (r * r) & mask;
        if ((e >> bit) & 1ull) {
            r = (r * static_cast<unsigned long long>(b)) & mask;
        }
    }
    return static_cast<T>(r);
}

template <typename T>
static void check_round(vp::Report & R, unsigned long long i, const char * tn)
{
    T got = round_pow2<T>(static_cast<T>(i));
    T exp = ref_round<T>(static_cast<T>(i));
    ++R.evaluations;
    R.observe(static_cast<uint64_t>(got));
    if (got != exp) {
        R.viol(std::string("round_pow2<") + tn + ">", "i=" + std::to_string(i) + " got=" + std::to_string(+got) + " expected=" + std::to_string(+exp), std::string("round ") + tn + " " + std::to_string(i));
    }
}
template <typename T>
static void check_pow(vp::Report & R, unsigned long long b, unsigned long long e, const char * tn, bool slowref)
{
    T got = ipow<T>(static_cast<T>(b), static_cast<T>(e));
    T exp = slowref ? ref_pow<T>(static_cast<T>(b), e) : ref_pow_fast<T>(static_cast<T>(b), e);
    ++R.evaluations;
    R.observe(static_cast<uint64_t>(got));
    if (got != exp) {
        R.viol(std::string("ipow<") + tn + ">", "b=" + std::to_string(b) + " e=" + std::to_string(e) + " got=" + std::to_string(+got) + " expected=" + std::to_string(+exp), std::string("pow ") + tn + " " + std::to_string(b) + " " + std::to_string(e));
    }
}

int main(int argc, char ** argv)
{
    bool thorough = argc > 1 && std::string(argv[1]) == "thorough";
    vp::Report R("numeric");
    // --- round_pow2 -------------------------------------------------------
    for (unsigned long long i = 1; i <= (1ull << 7); ++i) check_round<uint8_t>(R, i, "u8");
    for (unsigned long long i = 1; i <= (1ull << 15); ++i) check_round<uint16_t>(R, i, "u16");
    R.counters["round_u8_exhaustive"] = 1;
    R.counters["round_u16_exhaustive"] = 1;
    {
        // 32-bit: all values (thorough) or all values up to 2^22 plus the boundary set (quick)
        unsigned long long lim = thorough ? (1ull << 31) : (1ull << 22);
        unsigned nt = 16;
        std::vector<std::thread> th;
        std::atomic<unsigned long long> bad{0}, firstbad{0};
        std::vector<uint64_t> dig(nt, 0);
        for (unsigned t = 0; t < nt; ++t) {
            th.emplace_back([&, t] {
                uint64_t d = 0;
                for (unsigned long long i = 1 + t; i <= lim; i += nt) {
                    uint32_t got = round_pow2<uint32_t>(static_cast<uint32_t>(i));
                    uint32_t exp = ref_round<uint32_t>(static_cast<uint32_t>(i));
                    d += got;
                    if (got != exp) {
                        if (bad.fetch_add(1) == 0) firstbad = i;
                    }
                }
                dig[t] = d;
            });
        }
        for (auto & x : th) x.join();
        R.evaluations += lim;
        for (auto d : dig) R.observe(d);
        R.counters["round_u32_all_values_up_to"] = lim;
        if (bad) {
            R.viol("round_pow2<u32>", std::to_string(bad.load()) + " wrong values, e.g. i=" + std::to_string(firstbad.load()), "round u32 " + std::to_string(firstbad.load()));
        }
        for (int k = 0; k <= 31; ++k) {
            for (long long d = -1; d <= 1; ++d) {
                long long v = (1ll << k) + d;
                if (v >= 1 && v <= (1ll << 31)) check_round<uint32_t>(R, static_cast<unsigned long long>(v), "u32");
            }
        }
    }
    for (int k = 0; k <= 63; ++k) {
        for (int d = -1; d <= 1; ++d) {
            unsigned long long v = (1ull << k) + static_cast<unsigned long long>(static_cast<long long>(d));
            if (v >= 1 && v <= (1ull << 63)) {
                check_round<uint64_t>(R, v, "u64");
                check_round<std::size_t>(R, v, "size_t");
            }
        }
    }
    // --- ipow -------------------------------------------------------------
    for (unsigned b = 0; b < 256; ++b)
        for (unsigned e = 0; e < 256; ++e) check_pow<uint8_t>(R, b, e, "u8", true);
    R.counters["ipow_u8_all_pairs"] = 65536;
    {
        std::vector<unsigned long long> es;
        for (unsigned e = 0; e <= 64; ++e) es.push_back(e);
        for (int k = 7; k <= 15; ++k) {
            es.push_back((1ull << k) - 1);
            es.push_back(1ull << k);
            es.push_back((1ull << k) + 1);
        }
        es.push_back(65535);
        for (unsigned long long b = 0; b < 65536; ++b)
            for (auto e : es)
                if (e < 65536) check_pow<uint16_t>(R, b, e, "u16", false);
        // cross-check of the fast reference against the slow one on the 8-bit domain
        for (unsigned b = 0; b < 256; ++b)
            for (unsigned e = 0; e < 256; ++e)
                if (ref_pow<uint8_t>(b, e) != ref_pow_fast<uint8_t>(b, e)) {
                    std::printf("INTERNAL reference mismatch\n");
                    return 3;
                }
    }
    {
        std::vector<unsigned long long> bs32, es;
        for (int k = 0; k <= 32; ++k)
            for (int d = -1; d <= 1; ++d) {
                unsigned long long v = (1ull << k) + static_cast<unsigned long long>(static_cast<long long>(d));
                if (v < (1ull << 32)) bs32.push_back(v);
            }
        for (unsigned long long s : {3ull, 5ull, 7ull, 10ull, 0xdeadbeefull, 0x7fffffffull, 0xfffffffbull}) bs32.push_back(s);
        for (int k = 0; k <= 31; ++k)
            for (int d = -1; d <= 1; ++d) {
                long long v = (1ll << k) + d;
                if (v >= 0) es.push_back(static_cast<unsigned long long>(v));
            }
        es.push_back(0xffffffffull);
        for (auto b : bs32)
            for (auto e : es) check_pow<uint32_t>(R, b, e, "u32", false);
        std::vector<unsigned long long> bs64, es64;
        for (int k = 0; k <= 63; ++k)
            for (int d = -1; d <= 1; ++d) bs64.push_back((1ull << k) + static_cast<unsigned long long>(static_cast<long long>(d)));
        for (unsigned long long s : {3ull, 5ull, 7ull, 10ull, 0xdeadbeefcafef00dull, ~0ull, ~0ull - 4}) bs64.push_back(s);
        for (int k = 0; k <= 63; ++k)
            for (int d = -1; d <= 1; ++d) es64.push_back((1ull << k) + static_cast<unsigned long long>(static_cast<long long>(d)));
        es64.push_back(~0ull);
        for (auto b : bs64)
            for (auto e : es64) {
                check_pow<uint64_t>(R, b, e, "u64", false);
                check_pow<std::size_t>(R, b, e, "size_t", false);
            }
    }
    R.nontrivial = R.evaluations;  // every (type, argument) tuple is a distinct input; none is trivial
    R.sample("round_pow2<u16>(513)=" + std::to_string(round_pow2<uint16_t>(513)));
    R.sample("round_pow2<u64>(2^62+1)=" + std::to_string(round_pow2<uint64_t>((1ull << 62) + 1)));
    R.sample("ipow<u8>(3,200)=" + std::to_string(+ipow<uint8_t>(3, 200)));
    R.sample("ipow<u16>(65535,65535)=" + std::to_string(+ipow<uint16_t>(65535, 65535)));
    R.sample("ipow<u64>(3,2^63+1)=" + std::to_string(ipow<uint64_t>(3, (1ull << 63) + 1)));
    R.emit();
    return 0;
}
