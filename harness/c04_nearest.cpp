// C04: nearest-neighbour lookup returns the value at a lattice point within 1/2 per component.
// usage: c04 <quick|thorough>
#include <cmath>
#include <cstdlib>
#include <limits>
#include <vp/layers.hpp>
#include <vp/report.hpp>
#include <vp/xplore.hpp>

#include <covfie/core/backend/transformer/nearest_neighbour.hpp>

using namespace vp;
typedef __float128 q128;

template <class Rr>
static std::vector<Rr> ulps(Rr x, int span)
{
    std::vector<Rr> o;
    Rr lo = x, hi = x;
    o.push_back(x);
    for (int s = 0; s < span; ++s) {
        lo = std::nextafter(lo, -std::numeric_limits<Rr>::infinity());
        hi = std::nextafter(hi, std::numeric_limits<Rr>::infinity());
        o.push_back(lo);
        o.push_back(hi);
    }
    return o;
}

template <class Rr>
static std::vector<Rr> axis_alphabet(bool reduced, size_t want)
{
    std::vector<Rr> a;
    const int mant = std::numeric_limits<Rr>::digits;  // 24 / 53
    auto add = [&](Rr x) {
        if (x > static_cast<Rr>(-0.5)) a.push_back(x);
    };
    // every integer and half-integer of (-1/2, 8.5) with +-2 ulp
    for (int t = -1; t <= 17; ++t) {
        for (Rr x : ulps<Rr>(static_cast<Rr>(t) / 2, 2)) add(x);
    }
    add(static_cast<Rr>(-0.0));
    add(std::numeric_limits<Rr>::denorm_min());
    add(-std::numeric_limits<Rr>::denorm_min());
    add(static_cast<Rr>(0.25));
    add(static_cast<Rr>(-0.25));
    // exponent ladder: 2^k +- 1/2, 2^k +- 1, 2^k, each +- 1 ulp, as long as the value is below 2^62
    const int kmax = std::is_same_v<Rr, float> ? 30 : 61;
    for (int k = 1; k <= kmax; ++k) {
        Rr p = std::ldexp(static_cast<Rr>(1), k);
        for (Rr d : {static_cast<Rr>(-1), static_cast<Rr>(-0.5), static_cast<Rr>(0), static_cast<Rr>(0.5), static_cast<Rr>(1)}) {
            Rr x = p + d;  // rounds when the spacing is coarser; still a legitimate coordinate
            for (Rr y : ulps<Rr>(x, 1)) add(y);
        }
        // the largest half-integers of the type: (2^(mant-1) - 1/2)
        if (k == mant - 1 || k == mant - 2) {
            for (Rr y : ulps<Rr>(p - static_cast<Rr>(0.5), 2)) add(y);
            for (Rr y : ulps<Rr>(p - static_cast<Rr>(1.5), 2)) add(y);
        }
    }
    // the two values the lrintf defect was first seen with
    add(static_cast<Rr>(3.4999999999999996));
    add(static_cast<Rr>(16777217.0));
    add(static_cast<Rr>(2.5000000000000004));
    std::sort(a.begin(), a.end());
    a.erase(std::unique(a.begin(), a.end()), a.end());
    if (!reduced || a.size() <= want) return a;
    // reduced alphabet: the half-integer neighbourhood of 0.5, 2.5, 3.5 plus an even sample of the rest, always keeping the ends
    std::vector<Rr> r;
    for (Rr h : {static_cast<Rr>(0.5), static_cast<Rr>(2.5), static_cast<Rr>(3.5)})
        for (Rr y : ulps<Rr>(h, 1)) r.push_back(y);
    r.push_back(static_cast<Rr>(3.4999999999999996));
    r.push_back(static_cast<Rr>(16777217.0));
    size_t step = std::max<size_t>(1, a.size() / (want > r.size() ? want - r.size() : 1));
    for (size_t i = 0; i < a.size(); i += step) r.push_back(a[i]);
    r.push_back(a.back());
    std::sort(r.begin(), r.end());
    r.erase(std::unique(r.begin(), r.end()), r.end());
    return r;
}

template <size_t N, class Rr>
static void part_identity(Report & R, bool thorough)
{
    using Id = cb::identity<cv::vector_d<long, N>>;
    using NN = cb::nearest_neighbour<Id, cv::vector_d<Rr, N>>;
    covfie::field<NN> f(covfie::make_parameter_pack(std::monostate{}, std::monostate{}));
    covfie::field_view<NN> v(f);
    static const size_t wq[5] = {0, 100000, 200, 30, 10}, wt[5] = {0, 100000, 100000, 100, 30};
    auto al = axis_alphabet<Rr>(N > 1, thorough ? wt[N] : wq[N]);
    const std::string key = std::string("nn_identity:") + tname<Rr>::v;
    for_each_product<N, Rr>(al, [&](const std::array<Rr, N> & x) {
        covfie::array::array<Rr, N> xc;
        for (size_t k = 0; k < N; ++k) xc[k] = x[k];
        auto nc = v.at(xc);
        ++R.evaluations;
        for (size_t k = 0; k < N; ++k) {
            R.observe(static_cast<uint64_t>(nc[k]));
            q128 d = static_cast<q128>(nc[k]) - static_cast<q128>(x[k]);
            if (d < 0) d = -d;
            if (2 * d > 1) {
                char buf[200];
                std::snprintf(buf, sizeof buf, "component %zu: coordinate %.20g mapped to lattice point %ld (distance %.6g > 1/2)", k, static_cast<double>(x[k]), nc[k], static_cast<double>(d));
                R.viol(key, buf, std::string("nn_identity N") + std::to_string(N) + " " + tname<Rr>::v + " x" + vec_str(x, N));
            }
        }
    });
    R.counters[std::string("axis_alphabet_N") + std::to_string(N) + "_" + tname<Rr>::v] = al.size();
    R.nontrivial = R.evaluations;
}

template <class L, size_t N, size_t M, class Rr, class S>
static void part_array(Report & R, size_t Bd)
{
    using In = cv::vector_d<std::size_t, N>;
    using Ar = cb::array<cv::vector_d<S, M>>;
    using Src = cb::strided<In, Ar>;
    using Inner = typename L::template apply<In, Ar>;
    using NN = cb::nearest_neighbour<Inner, cv::vector_d<Rr, N>>;
    const std::string key = std::string("nn_array:") + L::name + ":" + tname<Rr>::v;
    for_each_extent<N>(1, Bd, [&](const std::array<size_t, N> & ext) {
        const size_t cells = product<N>(ext);
        covfie::field<Src> src(covfie::make_parameter_pack(typename Src::configuration_t(to_cov<size_t, N>(ext)), typename Ar::configuration_t{cells}));
        {
            covfie::field_view<Src> sv(src);
            for_each_coord<N>(ext, [&](const std::array<size_t, N> & c) {
                auto & cell = sv.at(to_cov<size_t, N>(c));
                // component j of the value encodes lattice coordinate (j mod N) so the chosen point can be decoded
                for (size_t j = 0; j < M; ++j) cell[j] = static_cast<S>(100 * (j + 1) + c[j % N]);
            });
        }
        covfie::field<Inner> inner(src);
        // nn has a converting constructor from any layer with monostate configuration only; build from owning data instead
        typename NN::owning_data_t no(std::monostate{}, typename Inner::owning_data_t(inner.backend()));
        covfie::field<NN> f(covfie::make_parameter_pack(std::move(no)));
        covfie::field_view<NN> v(f);
        std::array<std::vector<Rr>, N> al;
        for (size_t k = 0; k < N; ++k) {
            for (size_t i = 0; i < ext[k]; ++i) {
                Rr c = static_cast<Rr>(i);
                Rr lo = std::nextafter(c - static_cast<Rr>(0.5), std::numeric_limits<Rr>::infinity());
                Rr hi = std::nextafter(c + static_cast<Rr>(0.5), -std::numeric_limits<Rr>::infinity());
                al[k].push_back(lo);
                al[k].push_back(c - static_cast<Rr>(0.25));
                al[k].push_back(c);
                al[k].push_back(hi);
                if (i + 1 < ext[k]) al[k].push_back(c + static_cast<Rr>(0.5));  // exact tie: both neighbours are in range
            }
        }
        for_each_product_axes<N, Rr>(al, [&](const std::array<Rr, N> & x) {
            covfie::array::array<Rr, N> xc;
            for (size_t k = 0; k < N; ++k) xc[k] = x[k];
            auto val = v.at(xc);
            ++R.evaluations;
            // decode the lattice point from components j < min(N, M); the remaining axes are checked through part_identity
            for (size_t j = 0; j < M && j < N; ++j) {
                double comp = static_cast<double>(val[j]) - 100.0 * (j + 1);
                R.observe(static_cast<uint64_t>(comp));
                double d = std::fabs(comp - static_cast<double>(x[j]));
                if (!(2 * d <= 1.0) || comp < 0 || comp >= double(ext[j])) {
                    char buf[200];
                    std::snprintf(buf, sizeof buf, "axis %zu: coordinate %.17g returned the value stored at lattice index %g", j, static_cast<double>(x[j]), comp);
                    R.viol(key, buf, std::string("nn_array ") + L::name + " N" + std::to_string(N) + " M" + std::to_string(M) + " ext" + vec_str(ext, N) + " x" + vec_str(x, N));
                }
            }
        });
        ++R.nontrivial;
    });
}

int main(int argc, char ** argv)
{
    bool thorough = argc > 1 && std::string(argv[1]) == "thorough";
    std::string part = argc > 2 ? argv[2] : "all";
    Report R("nn/" + part);
    if (part == "id1" || part == "all") {
        part_identity<1, float>(R, thorough);
        part_identity<1, double>(R, thorough);
    }
    if (part == "id2" || part == "all") {
        part_identity<2, float>(R, thorough);
        part_identity<2, double>(R, thorough);
    }
    if (part == "id3" || part == "all") {
        part_identity<3, float>(R, thorough);
        part_identity<3, double>(R, thorough);
    }
    if (part == "id4" || part == "all") {
        part_identity<4, float>(R, thorough);
        part_identity<4, double>(R, thorough);
    }
    uint64_t idn = R.nontrivial;
    if (part == "arr" || part == "all") {
        R.nontrivial = 0;
        static const size_t BQ[5] = {0, 9, 4, 3, 2}, BT[5] = {0, 17, 6, 4, 3};
        const size_t * B = thorough ? BT : BQ;
        part_array<L_strided, 1, 1, float, float>(R, B[1]);
        part_array<L_strided, 1, 3, double, float>(R, B[1]);
        part_array<L_strided, 2, 2, float, float>(R, B[2]);
        part_array<L_strided, 2, 3, double, double>(R, B[2]);
        part_array<L_morton_port, 2, 2, double, float>(R, B[2]);
        part_array<L_hilbert, 2, 2, double, float>(R, B[2]);
        part_array<L_strided, 3, 3, float, float>(R, B[3]);
        part_array<L_morton_port, 3, 3, double, double>(R, B[3]);
        part_array<L_strided, 3, 1, double, float>(R, B[3]);
        part_array<L_strided, 4, 4, float, float>(R, B[4]);
        part_array<L_morton_port, 4, 4, double, float>(R, B[4]);
        R.counters["array_extent_vectors"] = R.nontrivial;
    }
    R.nontrivial += idn;
    R.sample("nn<identity<long1>,double>(3.4999999999999996), (16777217.0), (2^52-0.5): within 1/2 demanded");
    R.emit();
    return 0;
}
