// Main program of the binary-IO checks; linked with generated translation units that register one entry per stack.
//   io roundtrip <quick|thorough>            C06
//   io pairs <quick|thorough>                C07 (a)
//   io golden-write <dir> | golden-check <dir>   C07 (b)
//   io faults <quick|thorough> [stride]      C08  (stride > 1: every stride-th case, used under valgrind)
#include <algorithm>
#include <csignal>
#include <cstdlib>
#include <fstream>
#include <sys/mman.h>
#include <sys/wait.h>
#include <unistd.h>
#include <valgrind/valgrind.h>
#include <vp/io.hpp>

using namespace vp;

static std::string only_case()
{
    const char * oc = std::getenv("VP_ONLY_CASE");
    return oc ? oc : "";
}
static bool selected(const IoEntry & e)
{
    std::string oc = only_case();
    return oc.empty() || oc.find(e.name) == 0;
}

// ------------------------------------------------------------------------------------------------ C07 (a)
static bool same_footprint(const IoEntry & a, const IoEntry & b)
{
    std::vector<FLayer> fa, fb;
    for (int i = 0; i < a.nlayers; ++i)
        if (a.fl[i].tag) fa.push_back(a.fl[i]);
    for (int i = 0; i < b.nlayers; ++i)
        if (b.fl[i].tag) fb.push_back(b.fl[i]);
    if (fa.size() != fb.size()) return false;
    for (size_t i = 0; i < fa.size(); ++i)
        if (fa[i].tag != fb[i].tag || fa[i].cfg_bytes != fb[i].cfg_bytes || fa[i].is_array != fb[i].is_array || fa[i].m != fb[i].m) return false;
    return true;
}

static long double decode(const std::string & s, size_t off, int width)
{
    if (width == 4) {
        float f;
        std::memcpy(&f, s.data() + off, 4);
        return f;
    }
    double d;
    std::memcpy(&d, s.data() + off, 8);
    return d;
}

static void pairs(Report & R, bool thorough)
{
    auto & reg = io_registry();
    uint64_t npairs = 0, widen = 0, narrow = 0, same = 0;
    for (auto & A : reg) {
        if (!A.array_width || !selected(A)) continue;
        for (auto & B : reg) {
            if (!B.array_width || !same_footprint(A, B)) continue;
            if (&A == &B) continue;
            ++npairs;
            const int rots = thorough ? 12 : 4;
            for (int rot = 0; rot <= rots + 2; ++rot) {
                // the last rounds: the several-KiB variant of the stack (more than one buffer-full for any loader), the
                // 1-cell variant and the tight-storage variant (a twin must not be pickier about extents than the writer)
                const int var = rot == rots ? 4 : rot == rots + 1 ? 2 : rot == rots + 2 ? 5 : 0;
                const std::string cas = A.name + " -> " + B.name + " rot" + std::to_string(rot) + (var ? " var" + std::to_string(var) : "");
                const std::string key = "portable:" + A.key + "->" + B.key;
                std::string D = A.dump(var, -1000 - rot);
                std::istringstream is(D);
                std::string G, what;
                LoadOutcome lo = B.load(is.rdbuf(), &G, &what);
                ++R.evaluations;
                ++R.transitions;
                if (lo != LO_RETURNED) {
                    R.viol(key, "a file that differs only in interpolation method / float width is refused: " + what, cas);
                    continue;
                }
                FParse pa = format_parse(D, A.fl, A.nlayers), pb = format_parse(G, B.fl, B.nlayers);
                if (!pa.ok || !pb.ok) {
                    R.viol("grammar:" + B.key, "a dump does not follow the format grammar: " + pa.error + pb.error, cas);
                    continue;
                }
                // configuration blobs byte-identical, in order
                std::vector<std::string> ca, cb;
                for (auto & w : pa.words)
                    if (w.role == R_CONFIG) ca.push_back(D.substr(w.offset, w.size));
                for (auto & w : pb.words)
                    if (w.role == R_CONFIG) cb.push_back(G.substr(w.offset, w.size));
                if (ca != cb) R.viol(key, "a configuration blob changed while loading into the compatible type", cas);
                if (pa.count != pb.count) {
                    R.viol(key, "the element count changed", cas);
                    continue;
                }
                if (static_cast<int>(pb.width) != B.array_width) R.viol(key, "the reader's dump does not carry the reader's float width", cas);
                const size_t n = pa.count * A.array_m;
                for (size_t k = 0; k < n; ++k) {
                    const size_t oa = pa.scalars_offset + k * pa.width, ob = pb.scalars_offset + k * pb.width;
                    bool ok;
                    if (pa.width == pb.width) {
                        ok = std::memcmp(D.data() + oa, G.data() + ob, pa.width) == 0;
                        ++same;
                    } else if (pa.width == 4) {  // widening: exact
                        ok = decode(D, oa, 4) == decode(G, ob, 8);
                        float f;
                        std::memcpy(&f, D.data() + oa, 4);
                        double d;
                        std::memcpy(&d, G.data() + ob, 8);
                        ok = ok && (std::signbit(f) == std::signbit(d));
                        ++widen;
                    } else {  // narrowing: software round-to-nearest-even
                        uint64_t db;
                        std::memcpy(&db, D.data() + oa, 8);
                        uint32_t fb;
                        std::memcpy(&fb, G.data() + ob, 4);
                        ok = narrow_rne(db) == fb;
                        ++narrow;
                    }
                    if (!ok) {
                        char buf[200];
                        std::snprintf(buf, sizeof buf, "stored scalar #%zu: %.17Lg (width %u) was loaded as %.17Lg (width %u)", k, decode(D, oa, pa.width), pa.width, decode(G, ob, pb.width), pb.width);
                        R.viol(key, buf, cas);
                        break;
                    }
                }
            }
        }
    }
    R.counters["compatible_ordered_pairs"] = npairs;
    R.counters["scalars_same_width"] = same;
    R.counters["scalars_widened"] = widen;
    R.counters["scalars_narrowed"] = narrow;
    R.nontrivial = npairs;
    R.states = npairs;
}

// ------------------------------------------------------------------------------------------------ C07 (b)
static std::string slurp(const std::string & p)
{
    std::ifstream f(p, std::ios::binary);
    std::stringstream ss;
    ss << f.rdbuf();
    return ss.str();
}
static void golden(Report & R, const std::string & dir, bool write)
{
    for (auto & E : io_registry()) {
        if (!selected(E)) continue;
        const std::string path = dir + "/" + E.name + ".bin";
        const std::string D = E.dump(0, -1000);
        if (write) {
            std::ofstream f(path, std::ios::binary);
            f.write(D.data(), static_cast<std::streamsize>(D.size()));
            ++R.evaluations;
            continue;
        }
        std::ifstream probe(path, std::ios::binary);
        if (!probe.good()) {
            R.counters["stacks_without_golden_file"]++;
            continue;
        }
        const std::string Gd = slurp(path);
        ++R.evaluations;
        ++R.nontrivial;
        const std::string key = "golden:" + E.key;
        if (D != Gd) R.viol(key, "the field rebuilt from the recipe no longer dumps to the committed golden bytes (first difference at offset " + std::to_string(std::mismatch(D.begin(), D.end(), Gd.begin(), Gd.end()).first - D.begin()) + ")", E.name);
        std::istringstream is(Gd);
        std::string re, what;
        LoadOutcome lo = E.load(is.rdbuf(), &re, &what);
        ++R.transitions;
        if (lo != LO_RETURNED) R.viol(key, "the committed golden file no longer loads: " + what, E.name);
        else if (re != Gd) R.viol(key, "the committed golden file loads but re-dumps to different bytes", E.name);
        FParse fp = format_parse(Gd, E.fl, E.nlayers);
        if (!fp.ok) R.viol("grammar:" + E.key, "golden file rejected by the format automaton: " + fp.error, E.name);
    }
}

// ------------------------------------------------------------------------------------------------ C08
struct Shared {
    char desc[512];
    long cases;
    long caseno;  // index of the case being executed within the current stack
};
static long g_only_caseno = -1;  // >= 0: execute just this case (confirmation run of a suspected hang)
static unsigned g_case_alarm = 10;
static Shared * g_sh = nullptr;
static unsigned g_vg_errors = 0;

static const uint32_t KNOWN_TAGS[] = {0xAB000000u, 0xAB010000u, 0xAB010001u, 0xAB010002u, 0xAB020000u, 0xAB020001u, 0xAB020002u, 0xAB020003u, 0xAB020004u,
                                      0xAB020005u, 0xAB020006u, 0xAB020007u, 0xAB020008u, 0xAB020009u, 0xAB020010u, 0xAB110000u};

static void must_throw_once(Report & R, const IoEntry & E, const std::string & bytes, long fail_after, const std::string & kind, const std::string & cas0, int mask)
{
    const std::string cas = mask ? cas0 + " exceptions(" + std::to_string(mask) + ")" : cas0;
    std::snprintf(g_sh->desc, sizeof g_sh->desc, "%s", cas.c_str());
    ++g_sh->cases;
    fault_streambuf sb(bytes, fail_after);
    std::string what;
    vp::g_stream_exceptions = mask;
    LoadOutcome lo = E.load(&sb, nullptr, &what);
    vp::g_stream_exceptions = 0;
    ++R.evaluations;
    ++R.transitions;
    R.counters["outcome_" + std::string(lo == LO_THROW ? "exception" : lo == LO_BADALLOC ? "bad_alloc" : "returned")]++;
    if (mask) R.counters["cases_with_stream_exceptions_enabled"]++;
    if (lo == LO_RETURNED) R.viol("accepted:" + kind + ":" + E.key, "a field was returned for a damaged stream (" + kind + ")", cas);
    if (RUNNING_ON_VALGRIND) {
        unsigned n = VALGRIND_COUNT_ERRORS;
        if (n != g_vg_errors) {
            g_vg_errors = n;
            R.viol("uninitialised:" + kind + ":" + E.key, "memcheck reported an error (decision on uninitialised data / invalid access) while loading", cas);
        }
    }
}
static bool g_all_masks = false;
// every damaged stream is put to the loader as a caller with the default exception mask would, and again as a caller who
// asked the stream to throw by itself (is.exceptions(failbit|badbit), or eofbit too): either way an exception has to come
// back - not std::terminate from an exception thrown during unwinding
static void must_throw(Report & R, const IoEntry & E, const std::string & bytes, long fail_after, const std::string & kind, const std::string & cas)
{
    static long n = 0;
    const int FB = static_cast<int>(std::ios_base::failbit | std::ios_base::badbit), EFB = FB | static_cast<int>(std::ios_base::eofbit);
    must_throw_once(R, E, bytes, fail_after, kind, cas, 0);
    if (g_only_caseno >= 0 || g_all_masks) {
        must_throw_once(R, E, bytes, fail_after, kind, cas, FB);
        must_throw_once(R, E, bytes, fail_after, kind, cas, EFB);
    } else {
        must_throw_once(R, E, bytes, fail_after, kind, cas, (n++ % 2) ? EFB : FB);
    }
}

static long g_caseno = 0;
static void faults_for_dump(Report & R, const IoEntry & E, bool thorough, long stride, const std::string & D, const std::string & vname, bool foreign);
static void faults_for(Report & R, const IoEntry & E, bool thorough, long stride)
{
    g_caseno = 0;
    faults_for_dump(R, E, thorough, stride, E.dump(0, -1), "", true);
    // the same stack holding an EMPTY field (zero stored cells): loaders tend to special-case it
    if (E.array_width) faults_for_dump(R, E, thorough, stride, E.dump(3, -1), " [empty field]", false);
}
static void faults_for_dump(Report & R, const IoEntry & E0, bool thorough, long stride, const std::string & D, const std::string & vname, bool foreign)
{
    IoEntry E = E0;
    E.name = E0.name + vname;
    long & caseno = g_caseno;
    auto take = [&]() {
        const long me = caseno++;
        if (g_only_caseno >= 0) return me == g_only_caseno;
        if ((me % stride) != 0) return false;
        g_sh->caseno = me;
        alarm(g_case_alarm);  // re-armed for every case: a load that does not come back is a hang, not a slow check
        return true;
    };
    // (1) every proper prefix
    for (size_t k = 0; k < D.size(); ++k)
        if (take()) must_throw(R, E, D.substr(0, k), -1, "truncated", E.name + " prefix " + std::to_string(k) + "/" + std::to_string(D.size()));
    R.counters["prefixes"] += D.size();
    // (2) labelled words
    FParse fp = format_parse(D, E.fl, E.nlayers);
    if (!fp.ok) {
        R.viol("grammar:" + E.key, "the dump does not follow the format grammar: " + fp.error, E.name);
        return;
    }
    for (auto & w : fp.words) {
        if (w.role == R_CONFIG || w.role == R_COUNT || w.role == R_SCALARS) continue;
        uint32_t orig;
        std::memcpy(&orig, D.data() + w.offset, 4);
        std::vector<uint32_t> repl = {0u, ~0u, orig ^ 1u, orig ^ 0x80000000u, orig ^ 0x00010000u, orig + 0x20000000u, orig - 0x20000000u, FMT_MAGIC_HEADER, FMT_MAGIC_FOOTER};
        // the float-width word: every small value (a validation done on a derived quantity such as width/4 would accept
        // neighbours of the legal values), powers of two, byte-swapped forms
        if (w.role == R_WIDTH) repl = {0u, 1u, 2u, 3u, 4u, 5u, 6u, 7u, 8u, 9u, 10u, 11u, 12u, 13u, 15u, 16u, 17u, 24u, 32u, 64u, ~0u, orig ^ 0x80000000u, orig << 8, orig << 24, orig | 0x100u};
        if (w.role == R_TAG_HEADER || w.role == R_TAG_FOOTER)
            for (uint32_t t : KNOWN_TAGS) {
                repl.push_back(t);
                repl.push_back(t + 0x20000000u);
            }
        if (!thorough && repl.size() > 12 && w.role != R_WIDTH) {
            std::vector<uint32_t> r2(repl.begin(), repl.begin() + 9);
            for (size_t i = 9; i < repl.size(); i += 5) r2.push_back(repl[i]);
            repl = r2;
        }
        std::sort(repl.begin(), repl.end());
        repl.erase(std::unique(repl.begin(), repl.end()), repl.end());
        for (uint32_t r : repl) {
            if (r == orig) continue;
            std::string Dm = D;
            std::memcpy(&Dm[w.offset], &r, 4);
            if (format_parse(Dm, E.fl, E.nlayers).ok) {
                R.counters["corruptions_still_grammatical_skipped"]++;
                continue;
            }
            char buf[120];
            std::snprintf(buf, sizeof buf, " word@%zu role%d %08x->%08x", w.offset, static_cast<int>(w.role), orig, r);
            if (take()) must_throw(R, E, Dm, -1, "corrupted_word", E.name + buf);
        }
        R.counters["labelled_words"]++;
    }
    // (3) written by another stack
    for (auto & W : io_registry()) {
        if (!foreign) break;
        if (W.name == E0.name) continue;
        const std::string Dw = W.dump(0, -1);
        if (format_parse(Dw, E.fl, E.nlayers).ok) {
            R.counters["format_compatible_pairs_skipped"]++;
            continue;
        }
        R.counters["incompatible_pairs"]++;
        if (take()) must_throw(R, E, Dw, -1, "foreign_stack", E.name + " reads a file written by " + W.name);
    }
    // (4) stream failing at the n-th read
    {
        fault_streambuf sb(D, -1);
        std::string what;
        LoadOutcome lo = E.load(&sb, nullptr, &what);
        if (lo != LO_RETURNED) {
            R.viol("valid_refused:" + E.key, "the undamaged dump does not load through the fault stream: " + what, E.name);
        } else {
            const long reads = sb.reads();
            R.counters["reads_of_a_successful_load"] += reads;
            for (long n = 0; n < reads; ++n)
                if (take()) must_throw(R, E, D, n, "read_failure", E.name + " stream fails at read " + std::to_string(n) + "/" + std::to_string(reads));
        }
    }
    ++R.nontrivial;
}

static void faults(Report & R0, bool thorough, long stride, long shard, long nshards)
{
    g_all_masks = thorough;
    g_sh = static_cast<Shared *>(mmap(nullptr, sizeof(Shared), PROT_READ | PROT_WRITE, MAP_SHARED | MAP_ANONYMOUS, -1, 0));
    long eidx = -1;
    for (auto & E : io_registry()) {
        ++eidx;
        if (!selected(E)) continue;
        if (eidx % nshards != shard) continue;
        std::fflush(stdout);
        g_sh->desc[0] = 0;
        pid_t pid = fork();
        if (pid == 0) {
            Report R("faults/" + E.name);
            faults_for(R, E, thorough, stride);
            alarm(0);
            R.emit();
            std::fflush(stdout);
            _exit(0);
        }
        int status = 0;
        waitpid(pid, &status, 0);
        if (!(WIFEXITED(status) && WEXITSTATUS(status) == 0)) {
            bool confirmed = true;
            if (WIFSIGNALED(status) && WTERMSIG(status) == SIGALRM) {
                // re-run the timed-out case alone with a longer limit before calling it a hang
                const long k = g_sh->caseno;
                const std::string desc = g_sh->desc;
                std::fflush(stdout);
                pid_t p2 = fork();
                if (p2 == 0) {
                    Report R("faults-confirm/" + E.name);
                    g_only_caseno = k;
                    alarm(RUNNING_ON_VALGRIND ? 120 : 30);
                    faults_for(R, E, thorough, 1);
                    _exit(0);
                }
                int st2 = 0;
                waitpid(p2, &st2, 0);
                confirmed = !(WIFEXITED(st2) && WEXITSTATUS(st2) == 0);
                std::snprintf(g_sh->desc, sizeof g_sh->desc, "%s", desc.c_str());
                if (!confirmed) R0.counters["slow_cases_not_hangs"]++;
            }
            if (confirmed) {
                std::string how = WIFSIGNALED(status) ? (WTERMSIG(status) == SIGALRM ? "did not return within the time limit, also when re-run alone (hang)" : "was killed by signal " + std::to_string(WTERMSIG(status))) : "exited with status " + std::to_string(WEXITSTATUS(status));
                R0.viol((WIFSIGNALED(status) && WTERMSIG(status) == SIGALRM ? "hang:" : "crash:") + E.key, "loading a damaged stream " + how + " instead of throwing", g_sh->desc);
                if (++R0.counters["stacks_with_fatal_outcome"] >= 3) {
                    // the verdict is settled; do not spend hours waiting for the same hang on every remaining stack
                    R0.counters["shard_aborted_after_3_fatal_outcomes"] = 1;
                    break;
                }
            }
        }
        ++R0.states;
    }
}

int main(int argc, char ** argv)
{
    std::string mode = argc > 1 ? argv[1] : "roundtrip";
    std::string a2 = argc > 2 ? argv[2] : "quick";
    Report R("io/" + mode);
    std::sort(io_registry().begin(), io_registry().end(), [](const IoEntry & a, const IoEntry & b) { return a.name < b.name; });
    R.counters["catalogue_stacks"] = io_registry().size();
    if (mode == "roundtrip") {
        for (auto & E : io_registry())
            if (selected(E)) E.roundtrip(R, a2 == "thorough");
        R.states = R.distinct.size();
        for (size_t i = 0; i < io_registry().size(); i += std::max<size_t>(1, io_registry().size() / 5)) R.sample(io_registry()[i].name);
    } else if (mode == "pairs") {
        pairs(R, a2 == "thorough");
    } else if (mode == "golden-write" || mode == "golden-check") {
        golden(R, a2, mode == "golden-write");
    } else if (mode == "faults") {
        long stride = argc > 3 ? std::atol(argv[3]) : 1;
        long shard = argc > 4 ? std::atol(argv[4]) : 0, nshards = argc > 5 ? std::atol(argv[5]) : 1;
        if (RUNNING_ON_VALGRIND) g_case_alarm = 60;
        faults(R, a2 == "thorough", stride, shard, nshards);
    } else if (mode == "list") {
        for (auto & E : io_registry()) std::printf("%s\n", E.name.c_str());
    }
    R.emit();
    return 0;
}
