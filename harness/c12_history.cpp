// C12: fields stay independent values under any history of construct / write / copy / move / assign / convert /
// dump+load / destroy. Explicit-state BFS; a state is the history reaching it, replayed on fresh objects.
// usage: c12 <K slots> <ntypes 2|4> <nexts 2|3> <nvals 2|3> <mode bfs|all> <maxdepth> [replay "op;op;..."]
// Built twice: ledger build (-DVP_LEDGER: replaced operator new/delete) and ASan/UBSan build.
#include <algorithm>
#include <csignal>
#include <unistd.h>
#include <chrono>
#include <cstdlib>
#include <deque>
#include <functional>
#include <map>
#include <set>
#include <optional>
#include <sstream>
#include <unordered_map>
#include <vp/layers.hpp>
#include <vp/report.hpp>
#include <vp/xplore.hpp>

#include <covfie/core/backend/transformer/affine.hpp>
#include <covfie/core/backend/transformer/nearest_neighbour.hpp>

#ifdef VP_LEDGER
#include <vp/ledger.hpp>
#else
namespace vp {
inline long ledger_live() { return 0; }
inline long ledger_errors() { return 0; }
inline const char * ledger_last_error() { return ""; }
}
#endif

using namespace vp;

using TS = cb::strided<cv::size2, cb::array<cv::float1>>;
using TM = cb::morton<cv::size2, cb::array<cv::float1>, false>;
using TW = cb::affine<cb::nearest_neighbour<TS>>;
using TV = cb::affine<cb::nearest_neighbour<TM>>;
static const char * TN[4] = {"S", "M", "W", "V"};
static const size_t EXT[3][2] = {{1, 1}, {2, 1}, {1, 2}};

static size_t doc_len(int type, int e)
{
    std::array<size_t, 2> x = {EXT[e][0], EXT[e][1]};
    return (type == 0 || type == 2) ? L_strided::doc_len<2>(x) : L_morton_port::doc_len<2>(x);
}

template <class B>
static covfie::field<B> fresh(int e)
{
    covfie::utility::nd_size<2> sz{EXT[e][0], EXT[e][1]};
    if constexpr (std::is_same_v<B, TS>) {
        return covfie::field<B>(covfie::make_parameter_pack(TS::configuration_t(sz), cb::array<cv::float1>::configuration_t{doc_len(0, e)}));
    } else if constexpr (std::is_same_v<B, TM>) {
        return covfie::field<B>(covfie::make_parameter_pack(TM::configuration_t(sz), cb::array<cv::float1>::configuration_t{doc_len(1, e)}));
    } else if constexpr (std::is_same_v<B, TW>) {
        return covfie::field<B>(covfie::make_parameter_pack(TW::configuration_t(covfie::algebra::affine<2>::identity()), std::monostate{}, TS::configuration_t(sz), cb::array<cv::float1>::configuration_t{doc_len(2, e)}));
    } else {
        return covfie::field<B>(covfie::make_parameter_pack(TV::configuration_t(covfie::algebra::affine<2>::identity()), std::monostate{}, TM::configuration_t(sz), cb::array<cv::float1>::configuration_t{doc_len(3, e)}));
    }
}

template <class B>
static float & cell(covfie::field_view<B> & v, size_t x, size_t y)
{
    if constexpr (std::is_same_v<B, TS> || std::is_same_v<B, TM>) {
        return v.at(covfie::array::array<size_t, 2>{x, y})[0];
    } else {
        return v.at(static_cast<float>(x), static_cast<float>(y))[0];
    }
}

struct Slot {
    int st = 0;  // 0 dead 1 live 2 moved-from
    int type = 0;
    std::optional<covfie::field<TS>> s;
    std::optional<covfie::field<TM>> m;
    std::optional<covfie::field<TW>> w;
    std::optional<covfie::field<TV>> v;
    // a view taken when the slot's buffer was last (re)built: views are non-owning, so a later write through ANOTHER view of
    // the same field must be visible through it
    std::optional<covfie::field_view<TS>> pvs;
    std::optional<covfie::field_view<TM>> pvm;
    std::optional<covfie::field_view<TW>> pvw;
    std::optional<covfie::field_view<TV>> pvv;
    void drop_views()
    {
        pvs.reset();
        pvm.reset();
        pvw.reset();
        pvv.reset();
    }
    void reset()
    {
        drop_views();
        s.reset();
        m.reset();
        w.reset();
        v.reset();
        st = 0;
    }
};

struct MSlot {
    int st = 0, type = 0, e = 0;
    char origin = 'n';  // how the buffer of this field came to be: n new, c copied, v converted, l loaded (moves keep it)
    std::vector<int> vals;
};
static bool g_provenance = true;  // keep the construction path in the canonical state (hidden state such as the real
                                  // allocation size can differ between a fresh and a converted field)

enum Kind { NEW, WRITE, COPYC, MOVEC, COPYA, MOVEA, CONVC, CONVM, DUMPLOAD, DESTROY };
static const char * KN[] = {"new", "write", "copyctor", "movector", "copyassign", "moveassign", "convert_copy", "convert_move", "dumpload", "destroy"};
struct Op {
    int kind, a, b, t, e, c, v;  // a: target slot, b: source slot
    std::string str() const
    {
        std::ostringstream o;
        o << KN[kind] << "(" << a;
        if (kind == NEW) o << "," << TN[t] << ",ext" << e;
        else if (kind == WRITE) o << ",cell" << c << ",=" << v;
        else if (kind == DESTROY) {}
        else if (kind == CONVC || kind == CONVM) o << "<-" << b << " as " << TN[t];
        else o << "<-" << b;
        o << ")";
        return o.str();
    }
};

template <class F>
static auto with_field(Slot & s, F && f)
{
    switch (s.type) {
    case 0: return f(*s.s);
    case 1: return f(*s.m);
    case 2: return f(*s.w);
    default: return f(*s.v);
    }
}
template <class B>
static std::optional<covfie::field<B>> & opt_of(Slot & s)
{
    if constexpr (std::is_same_v<B, TS>) return s.s;
    else if constexpr (std::is_same_v<B, TM>) return s.m;
    else if constexpr (std::is_same_v<B, TW>) return s.w;
    else return s.v;
}
template <class B>
static std::optional<covfie::field_view<B>> & pview_of(Slot & s)
{
    if constexpr (std::is_same_v<B, TS>) return s.pvs;
    else if constexpr (std::is_same_v<B, TM>) return s.pvm;
    else if constexpr (std::is_same_v<B, TW>) return s.pvw;
    else return s.pvv;
}
template <class F>
static void with_type(int t, F && f)
{
    switch (t) {
    case 0: f(static_cast<TS *>(nullptr)); break;
    case 1: f(static_cast<TM *>(nullptr)); break;
    case 2: f(static_cast<TW *>(nullptr)); break;
    default: f(static_cast<TV *>(nullptr)); break;
    }
}
static int conv_partner(int t)
{
    return t ^ 1;  // S<->M, W<->V
}

// ---- implementation step
static void apply_impl(std::vector<Slot> & P, const Op & op)
{
    Slot & A = P[op.a];
    switch (op.kind) {
    case NEW:
        with_type(op.t, [&](auto * tag) {
            using B = std::remove_pointer_t<decltype(tag)>;
            opt_of<B>(A).emplace(fresh<B>(op.e));
        });
        A.st = 1;
        A.type = op.t;
        break;
    case WRITE:
        with_field(A, [&](auto & f) {
            using B = typename std::decay_t<decltype(f)>::backend_t;
            covfie::field_view<B> v(f);
            auto sz = [&] {
                if constexpr (std::is_same_v<B, TS> || std::is_same_v<B, TM>) return f.backend().get_configuration();
                else return f.backend().get_backend().get_backend().get_configuration();
            }();
            size_t x = op.c / sz[1], y = op.c % sz[1];
            cell<B>(v, x, y) = static_cast<float>(op.v);
            return 0;
        });
        break;
    case COPYC:
        with_field(P[op.b], [&](auto & f) {
            using B = typename std::decay_t<decltype(f)>::backend_t;
            opt_of<B>(A).emplace(f);
            return 0;
        });
        A.st = 1;
        A.type = P[op.b].type;
        break;
    case MOVEC:
        with_field(P[op.b], [&](auto & f) {
            using B = typename std::decay_t<decltype(f)>::backend_t;
            opt_of<B>(A).emplace(std::move(f));
            return 0;
        });
        A.st = 1;
        A.type = P[op.b].type;
        P[op.b].st = 2;
        break;
    case COPYA:
        with_field(P[op.b], [&](auto & f) {
            using B = typename std::decay_t<decltype(f)>::backend_t;
            covfie::field<B> & dst = *opt_of<B>(A);
            const covfie::field<B> & src = f;
            dst = src;  // op.a == op.b is self-assignment
            return 0;
        });
        A.st = 1;
        break;
    case MOVEA:
        with_field(P[op.b], [&](auto & f) {
            using B = typename std::decay_t<decltype(f)>::backend_t;
            *opt_of<B>(A) = std::move(f);
            return 0;
        });
        A.st = 1;
        if (op.a != op.b) P[op.b].st = 2;  // op.a == op.b: move self-assignment, the slot stays live (C12: "including self-assignment")
        break;
    case CONVC:
    case CONVM:
        with_field(P[op.b], [&](auto & f) {
            using B = typename std::decay_t<decltype(f)>::backend_t;
            using D = std::conditional_t<std::is_same_v<B, TS>, TM, std::conditional_t<std::is_same_v<B, TM>, TS, std::conditional_t<std::is_same_v<B, TW>, TV, TW>>>;
            if (op.kind == CONVC) opt_of<D>(A).emplace(f);
            else opt_of<D>(A).emplace(std::move(f));
            return 0;
        });
        A.st = 1;
        A.type = conv_partner(P[op.b].type);
        if (op.kind == CONVM) P[op.b].st = 2;
        break;
    case DUMPLOAD:
        with_field(P[op.b], [&](auto & f) {
            using B = typename std::decay_t<decltype(f)>::backend_t;
            std::stringstream ss;
            f.dump(ss);
            opt_of<B>(A).emplace(ss);
            return 0;
        });
        A.st = 1;
        A.type = P[op.b].type;
        break;
    case DESTROY:
        A.reset();
        break;
    }
}

// ---- model step (plain N-d array model)
static void apply_model(std::vector<MSlot> & M, const Op & op)
{
    MSlot & A = M[op.a];
    switch (op.kind) {
    case NEW:
        A.st = 1;
        A.type = op.t;
        A.e = op.e;
        A.origin = 'n';
        A.vals.assign(EXT[op.e][0] * EXT[op.e][1], 0);
        break;
    case WRITE: A.vals[op.c] = op.v; break;
    case COPYC:
    case DUMPLOAD:
    case COPYA: {
        MSlot src = M[op.b];
        const bool self = (op.kind == COPYA && op.a == op.b);
        A = src;
        if (!self) A.origin = op.kind == DUMPLOAD ? 'l' : 'c';
        break;
    }
    case MOVEC:
    case MOVEA: {
        if (op.kind == MOVEA && op.a == op.b) break;  // self-assignment: the plain-array model is unchanged
        MSlot src = M[op.b];
        M[op.b].st = 2;
        M[op.b].vals.clear();
        A = src;
        A.st = 1;
        break;
    }
    case CONVC:
    case CONVM: {
        MSlot src = M[op.b];
        if (op.kind == CONVM) {
            M[op.b].st = 2;
            M[op.b].vals.clear();
        }
        A = src;
        A.st = 1;
        A.type = conv_partner(src.type);
        A.origin = 'v';
        break;
    }
    case DESTROY:
        A.st = 0;
        A.vals.clear();
        break;
    }
}

static int g_ntypes = 2, g_nexts = 3, g_nvals = 3;

static std::vector<Op> enabled(const std::vector<MSlot> & M)
{
    std::vector<Op> out;
    const int K = static_cast<int>(M.size());
    for (int a = 0; a < K; ++a) {
        if (M[a].st == 0) {
            // symmetry: only the lowest-numbered dead slot may be filled (slots are interchangeable)
            bool lowest = true;
            for (int q = 0; q < a; ++q)
                if (M[q].st == 0) lowest = false;
            if (!lowest) continue;
            for (int t = 0; t < g_ntypes; ++t)
                for (int e = 0; e < g_nexts; ++e) out.push_back({NEW, a, -1, t, e, 0, 0});
            for (int b = 0; b < K; ++b)
                if (M[b].st == 1) {
                    out.push_back({COPYC, a, b, 0, 0, 0, 0});
                    out.push_back({MOVEC, a, b, 0, 0, 0, 0});
                    out.push_back({DUMPLOAD, a, b, 0, 0, 0, 0});
                    if (conv_partner(M[b].type) < g_ntypes) {
                        out.push_back({CONVC, a, b, conv_partner(M[b].type), 0, 0, 0});
                        out.push_back({CONVM, a, b, conv_partner(M[b].type), 0, 0, 0});
                    }
                }
        } else {
            out.push_back({DESTROY, a, -1, 0, 0, 0, 0});
            if (M[a].st == 1)
                for (size_t c = 0; c < M[a].vals.size(); ++c)
                    for (int v = 1; v < g_nvals; ++v) out.push_back({WRITE, a, -1, 0, 0, static_cast<int>(c), v});
            // assignment TO a live or moved-from slot FROM a live slot of the same type (self-assignment for live a)
            // a moved-from slot keeps its static type
            for (int b = 0; b < K; ++b)
                if (M[b].st == 1 && M[b].type == M[a].type) {
                    out.push_back({COPYA, a, b, 0, 0, 0, 0});
                    if (a != b || M[a].st == 1) out.push_back({MOVEA, a, b, 0, 0, 0, 0});
                }
        }
    }
    return out;
}

static std::string canon(const std::vector<MSlot> & M)
{
    // slots are interchangeable for the property: sort the per-slot descriptions
    std::vector<std::string> d;
    for (auto & s : M) {
        std::string x;
        if (s.st == 0) x = "D";
        else if (s.st == 2) x = std::string("X") + TN[s.type];
        else {
            x = std::string("L") + TN[s.type] + char('0' + s.e) + (g_provenance ? std::string(1, s.origin) : std::string()) + ":";
            for (int v : s.vals) x += char('0' + v);
        }
        d.push_back(x);
    }
    std::sort(d.begin(), d.end());
    std::string r;
    for (auto & x : d) r += x + "|";
    return r;
}

struct Op;
static const std::vector<Op> * g_cur = nullptr;  // history being replayed, for the watchdog
static bool g_in_replay = false;
struct Outcome {
    bool ok = true;
    std::string key, detail;
    uint64_t obs = 0;  // digest of everything observed
};

// replays a history on fresh objects and checks the oracle after every operation
static Outcome replay(const std::vector<Op> & hist, int K)
{
    Outcome out;
    g_cur = &hist;
    g_in_replay = true;
    alarm(20);
    const long live0 = ledger_live();
    const long err0 = ledger_errors();
    {
        std::vector<Slot> P(K);
        std::vector<MSlot> M(K);
        uint64_t h = 1469598103934665603ull;
        for (size_t step = 0; step < hist.size() && out.ok; ++step) {
            apply_impl(P, hist[step]);
            apply_model(M, hist[step]);
            {
                const Op & op = hist[step];
                // the target's buffer was (re)built by every operation except a write; a moved-from source loses its view
                if (op.kind != WRITE && op.kind != DESTROY && M[op.a].st == 1) {
                    P[op.a].drop_views();
                    with_field(P[op.a], [&](auto & f) {
                        using B = typename std::decay_t<decltype(f)>::backend_t;
                        pview_of<B>(P[op.a]).emplace(f);
                        return 0;
                    });
                }
                if ((op.kind == MOVEC || op.kind == MOVEA || op.kind == CONVM) && op.b >= 0 && op.b != op.a) P[op.b].drop_views();
            }
            std::vector<const void *> bufs;
            for (int a = 0; a < K && out.ok; ++a) {
                if (M[a].st != 1) continue;
                with_field(P[a], [&](auto & f) {
                    using B = typename std::decay_t<decltype(f)>::backend_t;
                    covfie::field_view<B> v(f);
                    auto sz = [&] {
                        if constexpr (std::is_same_v<B, TS> || std::is_same_v<B, TM>) return f.backend().get_configuration();
                        else return f.backend().get_backend().get_backend().get_configuration();
                    }();
                    if (sz[0] != EXT[M[a].e][0] || sz[1] != EXT[M[a].e][1]) {
                        out.ok = false;
                        out.key = std::string("extents:") + KN[hist[step].kind];
                        out.detail = "slot " + std::to_string(a) + " reports extents (" + std::to_string(sz[0]) + "," + std::to_string(sz[1]) + ") after " + hist[step].str();
                        return 0;
                    }
                    for (size_t c = 0; c < M[a].vals.size(); ++c) {
                        float got = cell<B>(v, c / sz[1], c % sz[1]);
                        h = fnv_of(got, h);
                        if (got != static_cast<float>(M[a].vals[c])) {
                            out.ok = false;
                            out.key = std::string("value:") + KN[hist[step].kind] + ":" + TN[M[a].type];
                            out.detail = "after " + hist[step].str() + " slot " + std::to_string(a) + " cell " + std::to_string(c) + " holds " + std::to_string(got) + ", the array model holds " + std::to_string(M[a].vals[c]);
                            return 0;
                        }
                    }
                    if (!M[a].vals.empty()) bufs.push_back(&cell<B>(v, 0, 0));
                    // the same cells through the view taken when the buffer was built
                    if (auto & pv = pview_of<B>(P[a]); pv.has_value() && out.ok) {
                        for (size_t c = 0; c < M[a].vals.size(); ++c) {
                            float got = cell<B>(*pv, c / sz[1], c % sz[1]);
                            h = fnv_of(got, h);
                            if (got != static_cast<float>(M[a].vals[c])) {
                                out.ok = false;
                                out.key = std::string("staleview:") + KN[hist[step].kind] + ":" + TN[M[a].type];
                                out.detail = "after " + hist[step].str() + " a view of slot " + std::to_string(a) + " taken before the operation reads " + std::to_string(got) + " at cell " + std::to_string(c) + ", the field holds " + std::to_string(M[a].vals[c]);
                                return 0;
                            }
                        }
                    }
                    return 0;
                });
            }
            for (size_t i = 0; i < bufs.size() && out.ok; ++i)
                for (size_t j = i + 1; j < bufs.size(); ++j)
                    if (bufs[i] == bufs[j]) {
                        out.ok = false;
                        out.key = std::string("alias:") + KN[hist[step].kind];
                        out.detail = "two live fields share one buffer after " + hist[step].str();
                    }
        }
        out.obs = h;
        // teardown of the pool happens here (destructors of live and moved-from fields)
    }
    alarm(0);
    g_in_replay = false;
    if (out.ok && ledger_errors() != err0) {
        out.ok = false;
        out.key = "heap:misuse";
        out.detail = std::string("allocation ledger: ") + ledger_last_error();
    }
    if (out.ok && ledger_live() != live0) {
        out.ok = false;
        out.key = "heap:leak";
        out.detail = "allocation ledger: " + std::to_string(ledger_live() - live0) + " block(s) still live after the pool was torn down";
    }
    return out;
}

static std::string hist_str(const std::vector<Op> & h);
static std::string hist_enc(const std::vector<Op> & h);
static void report_current(const char * why)
{
    if (g_cur && g_in_replay) {
        g_in_replay = false;
        std::printf("VIOL {\"key\":\"%s\",\"detail\":\"%s while executing [history: %s]\",\"case\":\"%s\"}\n", why, why, hist_str(*g_cur).c_str(), hist_enc(*g_cur).c_str());
        std::fflush(stdout);
    }
}
extern "C" void __asan_on_error() { report_current("sanitizer_report"); }
static void at_exit_hook() { report_current("abnormal_exit"); }
static void on_fatal(int sig)
{
    report_current(sig == SIGSEGV ? "segfault" : "abort");
    _exit(1);
}
static void watchdog(int)
{
    // a replay that does not come back within the alarm period: report the history and stop (undefined behaviour in
    // a special member function typically shows up like this in the unsanitised build)
    if (g_cur) {
        std::printf("VIOL {\"key\":\"hang\",\"detail\":\"replay of one history did not terminate within 20 s [history: %s]\",\"case\":\"%s\"}\n", hist_str(*g_cur).c_str(), hist_enc(*g_cur).c_str());
        std::fflush(stdout);
    }
    _exit(1);
}
static std::string hist_str(const std::vector<Op> & h)
{
    std::string s;
    for (auto & o : h) s += (s.empty() ? "" : ";") + o.str();
    return s;
}
static std::string hist_enc(const std::vector<Op> & h)
{
    std::ostringstream o;
    for (auto & x : h) o << x.kind << "," << x.a << "," << x.b << "," << x.t << "," << x.e << "," << x.c << "," << x.v << ";";
    return o.str();
}
static std::vector<Op> hist_dec(const std::string & s)
{
    std::vector<Op> h;
    std::istringstream in(s);
    std::string tok;
    while (std::getline(in, tok, ';')) {
        if (tok.empty()) continue;
        Op o;
        if (std::sscanf(tok.c_str(), "%d,%d,%d,%d,%d,%d,%d", &o.kind, &o.a, &o.b, &o.t, &o.e, &o.c, &o.v) == 7) h.push_back(o);
    }
    return h;
}

int main(int argc, char ** argv)
{
    int K = argc > 1 ? std::atoi(argv[1]) : 2;
    g_ntypes = argc > 2 ? std::atoi(argv[2]) : 2;
    g_nexts = argc > 3 ? std::atoi(argv[3]) : 3;
    g_nvals = argc > 4 ? std::atoi(argv[4]) : 3;
    std::string mode = argc > 5 ? argv[5] : "bfs";
    size_t maxdepth = argc > 6 ? std::strtoul(argv[6], nullptr, 10) : 100;
    double budget_s = argc > 7 ? std::atof(argv[7]) : 1e9;
    g_provenance = !(argc > 8 && std::string(argv[8]) == "noprov");
    Report R("history/K" + std::to_string(K) + "/types" + std::to_string(g_ntypes) + "/" + mode + (argc > 8 ? "/noprov" : ""));
    R.viol_cap = 3;
    std::signal(SIGALRM, watchdog);
    std::signal(SIGSEGV, on_fatal);
    std::signal(SIGABRT, on_fatal);
    std::atexit(at_exit_hook);
    const char * oc = std::getenv("VP_ONLY_CASE");
    if (oc && *oc) {
        auto h = hist_dec(oc);
        auto o1 = replay(h, K), o2 = replay(h, K);
        std::printf("REPLAY %s\n  -> %s %s %s\n", hist_str(h).c_str(), o1.ok ? "ok" : "VIOLATION", o1.key.c_str(), o1.detail.c_str());
        if (!o1.ok) R.viol(o1.key, o1.detail + "  [history: " + hist_str(h) + "]", hist_enc(h));
        if (o1.ok != o2.ok || o1.obs != o2.obs) R.viol("nondeterministic_replay", "two replays of one history differ", hist_enc(h));
        R.evaluations = 1;
        R.emit();
        return 0;
    }
    const auto t0 = std::chrono::steady_clock::now();
    auto elapsed = [&] { return std::chrono::duration<double>(std::chrono::steady_clock::now() - t0).count(); };
    if (mode == "bfs") {
        std::unordered_map<std::string, size_t> seen;  // canonical state -> depth
        std::deque<std::vector<Op>> frontier;
        frontier.push_back({});
        std::vector<MSlot> M0(K);
        seen[canon(M0)] = 0;
        size_t deepest = 0;
        bool capped = false;
        std::map<std::string, uint64_t> per_kind;
        while (!frontier.empty()) {
            std::vector<Op> hist = frontier.front();
            frontier.pop_front();
            if (elapsed() > budget_s) {
                capped = true;
                break;
            }
            std::vector<MSlot> M(K);
            for (auto & o : hist) apply_model(M, o);
            for (const Op & op : enabled(M)) {
                std::vector<Op> h2 = hist;
                h2.push_back(op);
                Outcome o = replay(h2, K);
                ++R.transitions;
                ++R.evaluations;
                per_kind[KN[op.kind]]++;
                R.observe(o.obs);
                if (!o.ok) {
                    // replay before report: the same history must fail the same way twice
                    Outcome o2 = replay(h2, K);
                    if (o2.ok || o2.key != o.key) R.viol("nondeterministic_replay", "history failed once and not (or differently) on replay: " + hist_str(h2), hist_enc(h2));
                    else R.viol(o.key, o.detail + "  [history: " + hist_str(h2) + "]", hist_enc(h2));
                    continue;  // do not explore beyond a violating state
                }
                std::vector<MSlot> M2 = M;
                apply_model(M2, op);
                std::string k = canon(M2);
                if (!seen.count(k)) {
                    seen[k] = h2.size();
                    deepest = std::max(deepest, h2.size());
                    if (h2.size() < maxdepth) frontier.push_back(h2);
                    else capped = true;
                    if (R.samples.size() < 4 && h2.size() >= 4) R.sample(hist_str(h2) + "  => " + k);
                }
            }
        }
        R.states = seen.size();
        R.traces = R.transitions;
        R.counters["max_depth"] = deepest;
        R.counters["fixpoint_reached"] = capped ? 0 : 1;
        for (auto & kv : per_kind) R.counters["op_" + kv.first] = kv.second;
        // determinism of replay: every state's witness history replayed twice gives identical observations (spot: all at depth<=3)
    } else {
        // all histories up to maxdepth, no de-duplication (cross-check of the canonicalisation)
        std::set<std::string> states;
        std::vector<Op> hist;
        std::function<void(std::vector<MSlot> &)> rec = [&](std::vector<MSlot> & M) {
            if (hist.size() == maxdepth) return;
            for (const Op & op : enabled(M)) {
                hist.push_back(op);
                Outcome o = replay(hist, K);
                ++R.transitions;
                ++R.evaluations;
                R.observe(o.obs);
                if (!o.ok) {
                    R.viol(o.key, o.detail + "  [history: " + hist_str(hist) + "]", hist_enc(hist));
                } else {
                    std::vector<MSlot> M2 = M;
                    apply_model(M2, op);
                    states.insert(canon(M2));
                    rec(M2);
                }
                hist.pop_back();
            }
        };
        std::vector<MSlot> M0(K);
        rec(M0);
        R.states = states.size();
        R.traces = R.transitions;
        R.counters["all_histories_up_to_length"] = maxdepth;
        R.sample("every history of length <= " + std::to_string(maxdepth) + " without state merging");
    }
    R.nontrivial = R.states;
    R.emit();
    return 0;
}
