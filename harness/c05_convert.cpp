// C05: changing representation preserves the field.
// Build: -DVP_N=<1..4> -DVP_T=<float|double> [-DVP_QUICK]; usage: c05 <B> <chainlen>
#include <cstdlib>
#include <sstream>
#include <vp/layers.hpp>
#include <vp/report.hpp>
#include <vp/xplore.hpp>

#include <covfie/core/backend/transformer/affine.hpp>
#include <covfie/core/backend/transformer/linear.hpp>
#include <covfie/core/backend/transformer/nearest_neighbour.hpp>

#ifndef VP_N
#define VP_N 2
#endif
#ifndef VP_T
#define VP_T float
#endif
using namespace vp;

template <class B>
static std::string dump_of(const covfie::field<B> & f)
{
    std::ostringstream o;
    f.dump(o);
    return o.str();
}

template <size_t N, size_t M, class T>
struct Model {
    std::array<size_t, N> ext;
    T at(const std::array<size_t, N> & c, size_t j) const
    {
        size_t lin = 0;
        for (size_t k = 0; k < N; ++k) lin = lin * ext[k] + c[k];
        // not representable in single precision, so a conversion that rounds double storage through float is visible
        return static_cast<T>(0.1 + double(j) * 1000.3 + double(lin) / 3.0);
    }
};

template <class L, size_t N, size_t M, class T>
using Lay = typename L::template apply<cv::vector_d<std::size_t, N>, cb::array<cv::vector_d<T, M>>>;

// checks a layout field against the model; returns false on any mismatch
template <class L, size_t N, size_t M, class T>
static bool check_field(Report & R, const covfie::field<Lay<L, N, M, T>> & f, const Model<N, M, T> & m, const std::string & key, const std::string & cas)
{
    bool ok = true;
    auto sz = f.backend().get_configuration();
    for (size_t k = 0; k < N; ++k)
        if (sz[k] != m.ext[k]) {
            R.viol("extents:" + key, "destination reports extent " + std::to_string(sz[k]) + " on axis " + std::to_string(k), cas);
            ok = false;
        }
    size_t len = f.backend().get_backend().get_configuration()[0];
    if (len != L::template doc_len<N>(m.ext)) R.counters["storage_length_differs_from_documented"]++;  // recorded, not demanded
    if (!ok) return false;
    covfie::field_view<Lay<L, N, M, T>> v(f);
    for_each_coord<N>(m.ext, [&](const std::array<size_t, N> & c) {
        const auto & cell = v.at(to_cov<size_t, N>(c));
        ++R.evaluations;
        for (size_t j = 0; j < M; ++j) {
            R.observe(fnv_of(cell[j]));
            if (!(cell[j] == m.at(c, j))) {
                if (ok) R.viol("value:" + key, "value at " + vec_str(c, N) + " component " + std::to_string(j) + " is " + std::to_string(cell[j]) + ", source holds " + std::to_string(m.at(c, j)), cas);
                ok = false;
            }
        }
    });
    return ok;
}

template <size_t N, size_t M, class T>
static covfie::field<Lay<L_strided, N, M, T>> make_src(const Model<N, M, T> & m)
{
    using S = Lay<L_strided, N, M, T>;
    covfie::field<S> f(covfie::make_parameter_pack(typename S::configuration_t(to_cov<size_t, N>(m.ext)), typename S::backend_t::configuration_t{product<N>(m.ext)}));
    covfie::field_view<S> v(f);
    for_each_coord<N>(m.ext, [&](const std::array<size_t, N> & c) {
        auto & cell = v.at(to_cov<size_t, N>(c));
        for (size_t j = 0; j < M; ++j) cell[j] = m.at(c, j);
    });
    return f;
}

template <class LA, class LB, size_t N, size_t M, class T>
static void pair(Report & R, const Model<N, M, T> & m, const covfie::field<Lay<L_strided, N, M, T>> & src)
{
    const std::string key = std::string(LA::name) + "->" + LB::name + ":N" + std::to_string(N);
    const std::string cas = key + "/M" + std::to_string(M) + "/" + tname<T>::v + "/ext" + vec_str(m.ext, N);
    covfie::field<Lay<LA, N, M, T>> a(src);  // strided -> A (for A = strided this is the converting copy as well)
    const std::string da = dump_of(a);
    covfie::field<Lay<LB, N, M, T>> b(a);    // A -> B, copying form
    ++R.transitions;
    if (dump_of(a) != da) R.viol("source_changed:" + key, "the source field's dump differs after a copying conversion", cas);
    if (!check_field<LB, N, M, T>(R, b, m, key, cas)) return;
    covfie::field<Lay<LA, N, M, T>> back(b);  // B -> A
    ++R.transitions;
    // "reproduces the original": extents, and the value at every lattice coordinate (cells outside the extents - the padding of
    // a power-of-two cube - are nobody's business); byte equality additionally where the layout has no padding
    if (!check_field<LA, N, M, T>(R, back, m, "roundtrip:" + key, cas)) return;
    if (a.backend().get_backend().get_configuration()[0] == product<N>(m.ext) && dump_of(back) != da) R.viol("roundtrip:" + key, "converting back does not reproduce the original field byte for byte", cas);
    // moving form of the field converting constructor
    covfie::field<Lay<LA, N, M, T>> a2(src);
    covfie::field<Lay<LB, N, M, T>> b2(std::move(a2));
    ++R.transitions;
    if (!check_field<LB, N, M, T>(R, b2, m, "moveform:" + key, cas)) return;
    ++R.states;
}

template <class LA, size_t N, size_t M, class T>
static void pairs_from(Report & R, const Model<N, M, T> & m, const covfie::field<Lay<L_strided, N, M, T>> & src)
{
    pair<LA, L_strided, N, M, T>(R, m, src);
    pair<LA, L_morton_bmi, N, M, T>(R, m, src);
    pair<LA, L_morton_port, N, M, T>(R, m, src);
    if constexpr (N == 2) pair<LA, L_hilbert, N, M, T>(R, m, src);
}

// ----- chains: all conversion sequences up to a length, via type-erased steps on a variant-like holder
template <size_t N, size_t M, class T>
struct Any {
    int kind = 0;  // 0 strided 1 morton_bmi 2 morton_port 3 hilbert
    std::unique_ptr<covfie::field<Lay<L_strided, N, M, T>>> s;
    std::unique_ptr<covfie::field<Lay<L_morton_bmi, N, M, T>>> mb;
    std::unique_ptr<covfie::field<Lay<L_morton_port, N, M, T>>> mp;
    std::unique_ptr<covfie::field<Lay<L_hilbert, 2, M, T>>> h;

    template <class F>
    auto visit(F && f) const
    {
        if (kind == 0) return f(*s);
        if (kind == 1) return f(*mb);
        if (kind == 2) return f(*mp);
        if constexpr (N == 2) return f(*h);
        std::abort();
    }
    Any to(int k) const
    {
        Any r;
        r.kind = k;
        visit([&](const auto & cur) {
            if (k == 0) r.s = std::make_unique<covfie::field<Lay<L_strided, N, M, T>>>(cur);
            if (k == 1) r.mb = std::make_unique<covfie::field<Lay<L_morton_bmi, N, M, T>>>(cur);
            if (k == 2) r.mp = std::make_unique<covfie::field<Lay<L_morton_port, N, M, T>>>(cur);
            if constexpr (N == 2) {
                if (k == 3) r.h = std::make_unique<covfie::field<Lay<L_hilbert, 2, M, T>>>(cur);
            }
            return 0;
        });
        return r;
    }
    // extents + the value at every lattice coordinate (padding cells excluded)
    std::string dump() const
    {
        return visit([](const auto & cur) {
            using F = std::decay_t<decltype(cur)>;
            using B = typename F::backend_t;
            std::ostringstream o;
            auto sz = cur.backend().get_configuration();
            std::array<size_t, N> ext;
            for (size_t k = 0; k < N; ++k) {
                ext[k] = sz[k];
                o << sz[k] << ",";
            }
            covfie::field_view<B> v(cur);
            for_each_coord<N>(ext, [&](const std::array<size_t, N> & c) {
                const auto & cell = v.at(to_cov<size_t, N>(c));
                for (size_t j = 0; j < M; ++j) o.write(reinterpret_cast<const char *>(&cell[j]), sizeof(T));
            });
            return o.str();
        });
    }
};

template <size_t N, size_t M, class T>
static void chains(Report & R, const Model<N, M, T> & m, const covfie::field<Lay<L_strided, N, M, T>> & src, size_t maxlen)
{
    const int K = (N == 2) ? 4 : 3;
    static const char * names[4] = {"strided", "morton_bmi2", "morton_portable", "hilbert"};
    Any<N, M, T> root;
    root.kind = 0;
    root.s = std::make_unique<covfie::field<Lay<L_strided, N, M, T>>>(src);
    // canonical dump per layout = one conversion from the row-major source
    std::vector<std::string> canon(K);
    for (int k = 0; k < K; ++k) canon[k] = root.to(k).dump();
    std::vector<int> path;
    std::function<void(const Any<N, M, T> &, size_t)> rec = [&](const Any<N, M, T> & cur, size_t depth) {
        if (depth == maxlen) return;
        for (int k = 0; k < K; ++k) {
            Any<N, M, T> nx = cur.to(k);
            ++R.transitions;
            path.push_back(k);
            if (nx.dump() != canon[k]) {
                std::string p = "strided";
                for (int q : path) p += std::string("->") + names[q];
                R.viol(std::string("chain:N") + std::to_string(N), "the field reached through " + p + " differs from the field converted directly from the source", "chain N" + std::to_string(N) + " M" + std::to_string(M) + " " + tname<T>::v + " ext" + vec_str(m.ext, N) + " " + p);
            }
            rec(nx, depth + 1);
            path.pop_back();
        }
    };
    rec(root, 0);
    R.states += K;
}

// ----- whole-stack conversions affine<I1<L1<array>>> -> affine<I2<L2<array>>>
template <class Inner, int I, size_t N, class C>
using Interp = std::conditional_t<I == 0, cb::nearest_neighbour<Inner, cv::vector_d<C, N>>, cb::linear<Inner, cv::vector_d<C, N>>>;

template <class L1, int I1, class L2, int I2, size_t N, size_t M, class T>
static void stack_pair(Report & R, const Model<N, M, T> & m, const covfie::field<Lay<L_strided, N, M, T>> & src)
{
    using C = float;
    using B1 = cb::affine<Interp<Lay<L1, N, M, T>, I1, N, C>>;
    using B2 = cb::affine<Interp<Lay<L2, N, M, T>, I2, N, C>>;
    const std::string key = std::string("stack:") + L1::name + (I1 ? "/linear" : "/nn") + "->" + L2::name + (I2 ? "/linear" : "/nn") + ":N" + std::to_string(N);
    const std::string cas = key + "/M" + std::to_string(M) + "/" + tname<T>::v + "/ext" + vec_str(m.ext, N);
    // non-trivial affine: scale 0.5 per axis, translation 0.25*(k+1), plus a shear entry
    covfie::array::array<covfie::array::array<C, N + 1>, N> l;
    for (size_t i = 0; i < N; ++i)
        for (size_t j = 0; j <= N; ++j) l[i][j] = (i == j) ? C(0.5) : (j == N ? C(0.25) * C(i + 1) : ((i == 0 && j == N - 1 && N > 1) ? C(0.125) : C(0)));
    typename B1::configuration_t A{covfie::algebra::matrix<N, N + 1, C>(l)};
    covfie::field<Lay<L1, N, M, T>> lay1(src);
    typename B1::backend_t::owning_data_t i1(std::monostate{}, typename Lay<L1, N, M, T>::owning_data_t(lay1.backend()));
    typename B1::owning_data_t o1(A, std::move(i1));
    covfie::field<B1> f1(covfie::make_parameter_pack(std::move(o1)));
    const std::string d1 = dump_of(f1);
    covfie::field<B2> f2(f1);
    ++R.transitions;
    if (dump_of(f1) != d1) R.viol("source_changed:" + key, "the source stack's dump differs after a copying conversion", cas);
    auto c1 = f1.backend().get_configuration();
    auto c2 = f2.backend().get_configuration();
    if (std::memcmp(&c1, &c2, sizeof c1) != 0) R.viol("config:" + key, "the affine configuration is not preserved bit for bit", cas);
    // inner storage of the destination against the model
    covfie::field<Lay<L2, N, M, T>> inner2(covfie::make_parameter_pack(typename Lay<L2, N, M, T>::owning_data_t(f2.backend().get_backend().get_backend())));
    if (!check_field<L2, N, M, T>(R, inner2, m, key, cas)) return;
    // lookups: same interpolator => identical results at every probe coordinate (coordinates mapped inside the grid)
    if (I1 == I2) {
        covfie::field_view<B1> v1(f1);
        covfie::field_view<B2> v2(f2);
        std::vector<C> al = {C(0), C(0.5), C(1), C(1.75)};
        for_each_product<N, C>(al, [&](const std::array<C, N> & x) {
            covfie::array::array<C, N> xc;
            bool in = true;
            for (size_t k = 0; k < N; ++k) {
                xc[k] = x[k];
                // image coordinate must stay in [0, ext-1) for linear and within the grid for nn
                C img = l[k][N];
                for (size_t j = 0; j < N; ++j) img += l[k][j] * x[j];
                if (!(img >= 0 && img < C(m.ext[k]) - C(I1 ? 1 : 0.5))) in = false;
            }
            if (!in) return;
            auto a = v1.at(xc);
            auto b = v2.at(xc);
            ++R.evaluations;
            for (size_t j = 0; j < M; ++j)
                if (!(a[j] == b[j])) R.viol("lookup:" + key, "source and converted stack disagree at " + vec_str(x, N), cas);
        });
    }
    // and back
    covfie::field<B1> back(f2);
    ++R.transitions;
    {
        auto cb = back.backend().get_configuration();
        if (std::memcmp(&c1, &cb, sizeof c1) != 0) R.viol("roundtrip:" + key, "converting the whole stack back does not reproduce the affine configuration", cas);
        covfie::field<Lay<L1, N, M, T>> innerb(covfie::make_parameter_pack(typename Lay<L1, N, M, T>::owning_data_t(back.backend().get_backend().get_backend())));
        if (!check_field<L1, N, M, T>(R, innerb, m, "roundtrip:" + key, cas)) return;
    }
    // moving form
    covfie::field<B1> f1m(f1);
    covfie::field<B2> f2m(std::move(f1m));
    {
        covfie::field<Lay<L2, N, M, T>> innerm(covfie::make_parameter_pack(typename Lay<L2, N, M, T>::owning_data_t(f2m.backend().get_backend().get_backend())));
        if (!check_field<L2, N, M, T>(R, innerm, m, "moveform:" + key, cas)) return;
    }
    ++R.states;
}

template <class L1, class L2, size_t N, size_t M, class T>
static void stack_pairs_I(Report & R, const Model<N, M, T> & m, const covfie::field<Lay<L_strided, N, M, T>> & src)
{
    stack_pair<L1, 0, L2, 0, N, M, T>(R, m, src);
    stack_pair<L1, 0, L2, 1, N, M, T>(R, m, src);
    stack_pair<L1, 1, L2, 0, N, M, T>(R, m, src);
    stack_pair<L1, 1, L2, 1, N, M, T>(R, m, src);
}
template <class L1, size_t N, size_t M, class T>
static void stack_pairs_L(Report & R, const Model<N, M, T> & m, const covfie::field<Lay<L_strided, N, M, T>> & src)
{
    stack_pairs_I<L1, L_strided, N, M, T>(R, m, src);
    stack_pairs_I<L1, L_morton_port, N, M, T>(R, m, src);
#ifndef VP_QUICK
    stack_pairs_I<L1, L_morton_bmi, N, M, T>(R, m, src);
#endif
    if constexpr (N == 2) stack_pairs_I<L1, L_hilbert, N, M, T>(R, m, src);
}

template <size_t N, size_t M, class T>
static void run_NM(Report & R, size_t B, size_t chainlen)
{
    for_each_extent<N>(1, B, [&](const std::array<size_t, N> & ext) {
        Model<N, M, T> m{ext};
        auto src = make_src<N, M, T>(m);
        pairs_from<L_strided, N, M, T>(R, m, src);
        pairs_from<L_morton_bmi, N, M, T>(R, m, src);
        pairs_from<L_morton_port, N, M, T>(R, m, src);
        if constexpr (N == 2) pairs_from<L_hilbert, N, M, T>(R, m, src);
        ++R.nontrivial;
    });
    // chains and whole stacks on a reduced set of extent vectors: {2,3}^N plus the non-square (1,..,B)
    std::vector<std::array<size_t, N>> es;
    for_each_extent<N>(2, 3, [&](const std::array<size_t, N> & e) { es.push_back(e); });
    std::array<size_t, N> odd;
    for (size_t k = 0; k < N; ++k) odd[k] = (k == 0) ? 1 : (k == N - 1 ? 5 : 3);
    es.push_back(odd);
    for (auto & ext : es) {
        Model<N, M, T> m{ext};
        auto src = make_src<N, M, T>(m);
        chains<N, M, T>(R, m, src, chainlen);
        stack_pairs_L<L_strided, N, M, T>(R, m, src);
        stack_pairs_L<L_morton_port, N, M, T>(R, m, src);
#ifndef VP_QUICK
        stack_pairs_L<L_morton_bmi, N, M, T>(R, m, src);
#endif
        if constexpr (N == 2) stack_pairs_L<L_hilbert, N, M, T>(R, m, src);
        ++R.nontrivial;
    }
}

int main(int argc, char ** argv)
{
    size_t B = argc > 1 ? std::strtoul(argv[1], nullptr, 10) : 3;
    size_t chainlen = argc > 2 ? std::strtoul(argv[2], nullptr, 10) : 2;
    Report R(std::string("convert/N") + std::to_string(VP_N) + "/" + tname<VP_T>::v);
    run_NM<VP_N, 1, VP_T>(R, B, chainlen);
    run_NM<VP_N, 3, VP_T>(R, B, chainlen);
    R.counters["chain_length"] = chainlen;
    R.sample("ordered pairs over {strided, morton_bmi2, morton_portable" + std::string(VP_N == 2 ? ", hilbert" : "") + "} for every extent vector <= " + std::to_string(B));
    R.sample("affine<nn<morton_portable<array>>> -> affine<linear<strided<array>>> with A = diag(0.5)+shear, t = 0.25(k+1)");
    R.emit();
    return 0;
}
