// C09: affine layer maps x to Ax+t; transforms compose as functions; factories have their textbook meaning.
// usage: c09 <quick|thorough> <N>
#include <cmath>
#include <cstdlib>
#include <vp/layers.hpp>
#include <vp/report.hpp>
#include <vp/xplore.hpp>

#include <covfie/core/algebra/affine.hpp>
#include <covfie/core/backend/transformer/affine.hpp>

using namespace vp;
typedef __float128 q128;

template <size_t N>
struct IM {  // integer affine map: a[i][j], j==N is the translation
    long a[N][N + 1];
    std::array<long, N> apply(const std::array<long, N> & x) const
    {
        std::array<long, N> r;
        for (size_t i = 0; i < N; ++i) {
            long s = a[i][N];
            for (size_t j = 0; j < N; ++j) s += a[i][j] * x[j];
            r[i] = s;
        }
        return r;
    }
    static IM ident()
    {
        IM m;
        for (size_t i = 0; i < N; ++i)
            for (size_t j = 0; j <= N; ++j) m.a[i][j] = (i == j);
        return m;
    }
    std::string str() const
    {
        std::string s = "[";
        for (size_t i = 0; i < N; ++i) {
            s += (i ? ";" : "");
            for (size_t j = 0; j <= N; ++j) s += (j ? " " : "") + std::to_string(a[i][j]);
        }
        return s + "]";
    }
};

template <size_t N, class T>
static covfie::algebra::affine<N, T> to_lib(const IM<N> & m)
{
    covfie::array::array<covfie::array::array<T, N + 1>, N> l;
    for (size_t i = 0; i < N; ++i)
        for (size_t j = 0; j <= N; ++j) l[i][j] = static_cast<T>(m.a[i][j]);
    return covfie::algebra::affine<N, T>(covfie::algebra::matrix<N, N + 1, T>(l));
}

template <size_t N, class T>
struct Harness {
    using Id = cb::identity<cv::vector_d<T, N>>;
    using Af = cb::affine<Id>;
    Report & R;
    std::string tn = std::string("N") + std::to_string(N) + ":" + tname<T>::v;

    // layer observation + operator* observation for one (map, vector)
    void check_apply(const IM<N> & m, const std::array<long, N> & x)
    {
        auto lm = to_lib<N, T>(m);
        covfie::field<Af> f(covfie::make_parameter_pack(typename Af::configuration_t(lm), std::monostate{}));
        covfie::field_view<Af> v(f);
        covfie::array::array<T, N> xc;
        for (size_t k = 0; k < N; ++k) xc[k] = static_cast<T>(x[k]);
        auto got = v.at(xc);
        covfie::algebra::vector<N, T> vv(xc);
        auto got2 = lm * vv;
        auto ex = m.apply(x);
        ++R.evaluations;
        for (size_t k = 0; k < N; ++k) {
            R.observe(static_cast<uint64_t>(static_cast<long>(got[k])));
            if (got[k] != static_cast<T>(ex[k])) R.viol("layer:" + tn, "affine<identity> returned component " + std::to_string(k) + " = " + std::to_string(got[k]) + ", A*x+t = " + std::to_string(ex[k]), "apply " + tn + " A=" + m.str() + " x" + vec_str(x, N));
            if (got2(k) != static_cast<T>(ex[k])) R.viol("operator:" + tn, "affine*vector component " + std::to_string(k) + " = " + std::to_string(got2(k)) + ", A*x+t = " + std::to_string(ex[k]), "apply " + tn + " A=" + m.str() + " x" + vec_str(x, N));
        }
    }

    void exact_small(bool thorough)
    {
        std::vector<long> ent, vec;
        if (N <= 2) {
            ent = {-2, -1, 0, 1, 2};
            vec = {-2, -1, 0, 1, 2};
        } else {
            ent = {-1, 0, 1};
            vec = {-1, 0, 1};
        }
        std::vector<std::array<long, N>> xs;
        for_each_product<N, long>(vec, [&](const std::array<long, N> & x) { xs.push_back(x); });
        const bool full = (N <= 2) || (N == 3 && thorough);
        if (full) {
            for_each_product<N *(N + 1), long>(ent, [&](const std::array<long, N *(N + 1)> & e) {
                IM<N> m;
                for (size_t i = 0; i < N; ++i)
                    for (size_t j = 0; j <= N; ++j) m.a[i][j] = e[i * (N + 1) + j];
                // the field is rebuilt per map; vectors share it
                auto lm = to_lib<N, T>(m);
                covfie::field<Af> f(covfie::make_parameter_pack(typename Af::configuration_t(lm), std::monostate{}));
                covfie::field_view<Af> v(f);
                for (auto & x : xs) {
                    covfie::array::array<T, N> xc;
                    for (size_t k = 0; k < N; ++k) xc[k] = static_cast<T>(x[k]);
                    auto got = v.at(xc);
                    auto ex = m.apply(x);
                    ++R.evaluations;
                    for (size_t k = 0; k < N; ++k) {
                        R.observe(static_cast<uint64_t>(static_cast<long>(got[k])));
                        if (got[k] != static_cast<T>(ex[k])) R.viol("layer:" + tn, "affine<identity> returned component " + std::to_string(k) + " = " + std::to_string(got[k]) + ", A*x+t = " + std::to_string(ex[k]), "apply " + tn + " A=" + m.str() + " x" + vec_str(x, N));
                    }
                }
                ++R.nontrivial;
            });
            R.counters["full_matrix_enumeration_N" + std::to_string(N)] = 1;
        } else {
            // deviation bound: identity with at most D entries replaced by a value of {-1,1,2} (0 where the identity has 1)
            const size_t D = thorough ? 3 : 2;
            const size_t E = N * (N + 1);
            std::vector<long> devs = {-1, 1, 2, 0};
            std::function<void(size_t, size_t, IM<N> &)> rec = [&](size_t start, size_t left, IM<N> & m) {
                for (auto & x : xs) check_apply(m, x);
                ++R.nontrivial;
                if (!left) return;
                for (size_t p = start; p < E; ++p) {
                    long old = m.a[p / (N + 1)][p % (N + 1)];
                    for (long d : devs) {
                        if (d == old) continue;
                        m.a[p / (N + 1)][p % (N + 1)] = d;
                        rec(p + 1, left - 1, m);
                    }
                    m.a[p / (N + 1)][p % (N + 1)] = old;
                }
            };
            IM<N> m = IM<N>::ident();
            rec(0, D, m);
            R.counters["deviation_bound_N" + std::to_string(N)] = D;
        }
    }

    void composition(bool thorough)
    {
        // generator set: identity, unit translations, scaling 2 on axis 0, global -1, axis swaps (0<->k), one shear
        std::vector<IM<N>> gen;
        gen.push_back(IM<N>::ident());
        for (size_t k = 0; k < N; ++k) {
            IM<N> t = IM<N>::ident();
            t.a[k][N] = 1 + long(k);
            gen.push_back(t);
        }
        {
            IM<N> s = IM<N>::ident();
            s.a[0][0] = 2;
            gen.push_back(s);
            IM<N> n = IM<N>::ident();
            for (size_t k = 0; k < N; ++k) n.a[k][k] = -1;
            gen.push_back(n);
        }
        for (size_t k = 1; k < N; ++k) {
            IM<N> w = IM<N>::ident();
            w.a[0][0] = 0;
            w.a[k][k] = 0;
            w.a[0][k] = 1;
            w.a[k][0] = 1;
            gen.push_back(w);
        }
        if (N > 1) {
            IM<N> sh = IM<N>::ident();
            sh.a[0][N - 1] = 1;
            sh.a[N - 1][N] = -2;
            gen.push_back(sh);
        } else {
            IM<N> sh = IM<N>::ident();
            sh.a[0][0] = 3;
            sh.a[0][1] = -2;
            gen.push_back(sh);
        }
        std::vector<std::array<long, N>> xs;
        for_each_product<N, long>(std::vector<long>{-1, 0, 2}, [&](const std::array<long, N> & x) { xs.push_back(x); });
        const size_t L = thorough ? 4 : 3;
        std::vector<size_t> idx;
        std::function<void(size_t)> rec = [&](size_t depth) {
            if (depth >= 2) {
                // product of the chain, left to right: P = g[i0]*g[i1]*...; as a function: apply the LAST factor first
                auto P = to_lib<N, T>(gen[idx[0]]);
                for (size_t q = 1; q < idx.size(); ++q) P = P * to_lib<N, T>(gen[idx[q]]);
                // the same chain the way a user writes it, a * b * c * d: every left operand after the first is a temporary
                // (value category is an input too: overloads for expiring operands are different code)
                std::function<covfie::algebra::affine<N, T>(size_t)> chain_tmp = [&](size_t q) -> covfie::algebra::affine<N, T> {
                    if (q == 0) return to_lib<N, T>(gen[idx[0]]);
                    return chain_tmp(q - 1) * to_lib<N, T>(gen[idx[q]]);
                };
                const covfie::algebra::affine<N, T> Pt = chain_tmp(idx.size() - 1);
                // and with a const lvalue on the left and an expiring right operand
                covfie::algebra::affine<N, T> Pr = to_lib<N, T>(gen[idx.back()]);
                for (size_t q = idx.size() - 1; q-- > 0;) {
                    const covfie::algebra::affine<N, T> lhs = to_lib<N, T>(gen[idx[q]]);
                    Pr = lhs * std::move(Pr);
                }
                for (auto & x : xs) {
                    std::array<long, N> y = x;
                    for (size_t q = idx.size(); q-- > 0;) y = gen[idx[q]].apply(y);
                    covfie::array::array<T, N> xc;
                    for (size_t k = 0; k < N; ++k) xc[k] = static_cast<T>(x[k]);
                    auto got = P * covfie::algebra::vector<N, T>(xc);
                    auto got_t = Pt * covfie::algebra::vector<N, T>(xc);
                    auto got_r = Pr * covfie::algebra::vector<N, T>(xc);
                    // and the sequential application through the library
                    covfie::algebra::vector<N, T> seq(xc);
                    for (size_t q = idx.size(); q-- > 0;) seq = to_lib<N, T>(gen[idx[q]]) * seq;
                    ++R.evaluations;
                    ++R.transitions;
                    for (size_t k = 0; k < N; ++k) {
                        R.observe(static_cast<uint64_t>(static_cast<long>(got(k))));
                        if (got_t(k) != static_cast<T>(y[k]) || got_r(k) != static_cast<T>(y[k])) {
                            std::string ch;
                            for (auto i : idx) ch += gen[i].str() + "*";
                            R.viol("compose_expiring:" + tn, "the product written with temporary / expiring operands gives (product)*v = " + std::to_string(got_t(k)) + " (temporaries on the left) and " + std::to_string(got_r(k)) + " (expiring right operand), composition of the maps = " + std::to_string(y[k]) + " (component " + std::to_string(k) + ")", "compose " + tn + " " + ch + " x" + vec_str(x, N));
                        }
                        if (got(k) != static_cast<T>(y[k]) || seq(k) != static_cast<T>(y[k])) {
                            std::string ch;
                            for (auto i : idx) ch += gen[i].str() + "*";
                            R.viol("compose:" + tn, "(product)*v = " + std::to_string(got(k)) + ", sequential library application = " + std::to_string(seq(k)) + ", composition of the maps = " + std::to_string(y[k]) + " (component " + std::to_string(k) + ")", "compose " + tn + " " + ch + " x" + vec_str(x, N));
                        }
                    }
                }
                ++R.nontrivial;
            }
            if (depth == L) return;
            for (size_t g = 0; g < gen.size(); ++g) {
                idx.push_back(g);
                rec(depth + 1);
                idx.pop_back();
            }
        };
        rec(0);
        R.counters["generators_N" + std::to_string(N)] = gen.size();
        R.counters["max_product_length"] = L;
    }

    template <size_t... Is>
    void factories_impl(const std::array<long, N> & p, std::index_sequence<Is...>)
    {
        using A = covfie::algebra::affine<N, T>;
        A tr = A::translation(static_cast<T>(p[Is])...);
        A sc = A::scaling(static_cast<T>(p[Is])...);
        A id = A(A::identity());
        for_each_product<N, long>(std::vector<long>{-3, 0, 1, 5}, [&](const std::array<long, N> & x) {
            covfie::array::array<T, N> xc;
            for (size_t k = 0; k < N; ++k) xc[k] = static_cast<T>(x[k]);
            covfie::algebra::vector<N, T> v(xc);
            auto a = tr * v, b = sc * v, c = id * v;
            ++R.evaluations;
            for (size_t k = 0; k < N; ++k) {
                if (a(k) != static_cast<T>(x[k] + p[k])) R.viol("translation:" + tn, "translation does not add its argument", "factory " + tn + " p" + vec_str(p, N) + " x" + vec_str(x, N));
                if (b(k) != static_cast<T>(x[k] * p[k])) R.viol("scaling:" + tn, "scaling does not multiply component-wise", "factory " + tn + " p" + vec_str(p, N) + " x" + vec_str(x, N));
                if (c(k) != static_cast<T>(x[k])) R.viol("identity:" + tn, "identity moves the point", "factory " + tn + " x" + vec_str(x, N));
            }
        });
        ++R.nontrivial;
    }
    void factories()
    {
        for_each_product<N, long>(std::vector<long>{-2, 0, 1, 3}, [&](const std::array<long, N> & p) { factories_impl(p, std::make_index_sequence<N>{}); });
    }

    // inexact alphabet: float ladder, relative bound (N+2)u * sum|a_ij x_j| + |t_i|
    void inexact()
    {
        const double u = std::is_same_v<T, float> ? 5.9604644775390625e-08 : 1.1102230246251565e-16;
        std::vector<T> al;
        for (int k = -20; k <= 20; k += 5) {
            al.push_back(static_cast<T>(std::ldexp(1.0, k) * 1.1));
            al.push_back(static_cast<T>(-std::ldexp(1.0, k) * 0.7));
        }
        al.push_back(static_cast<T>(0));
        // matrices: rows are cyclic shifts of a window of the alphabet; vectors: windows
        for (size_t off = 0; off + N + 1 <= al.size(); ++off) {
            covfie::array::array<covfie::array::array<T, N + 1>, N> l;
            for (size_t i = 0; i < N; ++i)
                for (size_t j = 0; j <= N; ++j) l[i][j] = al[(off + i * 3 + j * 5) % al.size()];
            covfie::algebra::affine<N, T> A{covfie::algebra::matrix<N, N + 1, T>(l)};
            covfie::field<Af> f(covfie::make_parameter_pack(typename Af::configuration_t(A), std::monostate{}));
            covfie::field_view<Af> v(f);
            for (size_t xo = 0; xo + N <= al.size(); ++xo) {
                covfie::array::array<T, N> xc;
                for (size_t k = 0; k < N; ++k) xc[k] = al[xo + k];
                auto got = v.at(xc);
                ++R.evaluations;
                for (size_t i = 0; i < N; ++i) {
                    q128 ex = static_cast<q128>(l[i][N]), mag = ex < 0 ? -ex : ex;
                    for (size_t j = 0; j < N; ++j) {
                        q128 t = static_cast<q128>(l[i][j]) * static_cast<q128>(xc[j]);
                        ex += t;
                        mag += t < 0 ? -t : t;
                    }
                    double err = std::fabs(static_cast<double>(static_cast<q128>(got[i]) - ex));
                    if (!(err <= (N + 2) * u * static_cast<double>(mag))) R.viol("inexact:" + tn, "component " + std::to_string(i) + " off by " + std::to_string(err) + " (bound " + std::to_string((N + 2) * u * static_cast<double>(mag)) + ")", "inexact " + tn + " off=" + std::to_string(off) + " xo=" + std::to_string(xo));
                }
            }
            ++R.nontrivial;
        }
    }
};

template <size_t N>
static void run(Report & R, bool thorough)
{
    {
        Harness<N, float> h{R};
        h.exact_small(thorough);
        h.composition(thorough);
        h.factories();
        h.inexact();
    }
    {
        Harness<N, double> h{R};
        h.exact_small(thorough);
        h.composition(thorough);
        h.factories();
        h.inexact();
    }
}

int main(int argc, char ** argv)
{
    bool thorough = argc > 1 && std::string(argv[1]) == "thorough";
    int n = argc > 2 ? std::atoi(argv[2]) : 2;
    Report R("affine/N" + std::to_string(n));
    if (n == 1) run<1>(R, thorough);
    if (n == 2) run<2>(R, thorough);
    if (n == 3) run<3>(R, thorough);
    if (n == 4) run<4>(R, thorough);
    R.sample("N=" + std::to_string(n) + ": small-integer matrices x vectors (exact), products of generators up to the stated length, factories, inexact ladder");
    R.emit();
    return 0;
}
