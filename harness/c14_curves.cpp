// C14: storage orders follow their published curves. Layers over identity<size1>: the field returns the flat position.
// usage: c14 <rowmajor|morton|hilbert> <N> <quick|thorough>
#include <limits>
#include <algorithm>
#include <cstdlib>
#include <vp/layers.hpp>
#include <vp/report.hpp>
#include <vp/xplore.hpp>

using namespace vp;
using u64 = unsigned long long;

template <size_t N>
using SizeN = cv::vector_d<std::size_t, N>;
using Id1 = cb::identity<cv::size1>;

template <class B, size_t N>
static covfie::field<B> mk(const std::array<size_t, N> & ext)
{
    return covfie::field<B>(covfie::make_parameter_pack(typename B::configuration_t(to_cov<size_t, N>(ext)), std::monostate{}));
}

// ---------------------------------------------------------------- row-major
template <size_t N>
static u64 ref_rowmajor(const std::array<size_t, N> & c, const std::array<size_t, N> & e)
{
    unsigned __int128 s = 0;
    for (size_t k = 0; k < N; ++k) {
        unsigned __int128 t = c[k];
        for (size_t l = k + 1; l < N; ++l) t *= e[l];
        s += t;
    }
    return static_cast<u64>(s);
}

template <size_t N>
static void rowmajor(Report & R, bool thorough)
{
    using B = cb::strided<SizeN<N>, Id1>;
    static const size_t BQ[5] = {0, 9, 5, 3, 2}, BT[5] = {0, 33, 17, 6, 4};
    const size_t Bd = thorough ? BT[N] : BQ[N];
    const std::string k = "rowmajor:N" + std::to_string(N);
    for_each_extent<N>(1, Bd, [&](const std::array<size_t, N> & ext) {
        auto f = mk<B, N>(ext);
        covfie::field_view<B> v(f);
        for_each_coord<N>(ext, [&](const std::array<size_t, N> & c) {
            u64 got = v.at(to_cov<size_t, N>(c))[0];
            ++R.evaluations;
            R.observe(got);
            if (got != ref_rowmajor<N>(c, ext)) R.viol(k, "position " + std::to_string(got) + " != " + std::to_string(ref_rowmajor<N>(c, ext)), "rowmajor N" + std::to_string(N) + " ext" + vec_str(ext, N) + " c" + vec_str(c, N));
        });
        ++R.nontrivial;
    });
    // large boundary extents: {1, 2^k-1, 2^k, 2^k+1} with product < 2^63; coordinates: per-axis {0, 1, mid, ext-2, ext-1}
    std::vector<size_t> big = {1};
    for (int kk : {1, 2, 3, 5, 8, 10, 13, 15, 16, 20, 21, 31, 32, 40, 62}) {
        for (int d = -1; d <= 1; ++d) big.push_back((size_t(1) << kk) + static_cast<size_t>(static_cast<long>(d)));
    }
    std::sort(big.begin(), big.end());
    big.erase(std::unique(big.begin(), big.end()), big.end());
    uint64_t nbig = 0;
    for_each_product<N, size_t>(big, [&](const std::array<size_t, N> & ext) {
        unsigned __int128 p = 1;
        for (auto x : ext) p *= x;
        if (p >= (static_cast<unsigned __int128>(1) << 63)) return;
        if (!thorough && (nbig++ % 7) != 0 && N > 2) return;  // quick: every 7th large extent vector for N >= 3
        auto f = mk<B, N>(ext);
        covfie::field_view<B> v(f);
        std::array<std::vector<size_t>, N> al;
        for (size_t a = 0; a < N; ++a) {
            std::vector<size_t> s = {0, ext[a] - 1, ext[a] / 2};
            if (ext[a] > 1) s.push_back(1);
            if (ext[a] > 2) s.push_back(ext[a] - 2);
            std::sort(s.begin(), s.end());
            s.erase(std::unique(s.begin(), s.end()), s.end());
            al[a] = s;
        }
        for_each_product_axes<N, size_t>(al, [&](const std::array<size_t, N> & c) {
            u64 got = v.at(to_cov<size_t, N>(c))[0];
            ++R.evaluations;
            R.observe(got);
            if (got != ref_rowmajor<N>(c, ext)) R.viol(k + ":large", "position " + std::to_string(got) + " != " + std::to_string(ref_rowmajor<N>(c, ext)), "rowmajor N" + std::to_string(N) + " ext" + vec_str(ext, N) + " c" + vec_str(c, N));
        });
        ++R.nontrivial;
        R.counters["large_extent_vectors"]++;
    });
    R.sample("rowmajor N" + std::to_string(N) + " all extents<=" + std::to_string(Bd) + " all coordinates");
}

// ------------------------------------------------------------------- morton
template <size_t N>
static u64 ref_morton(const std::array<size_t, N> & c)
{
    // definition: bit b of coordinate k lands at bit b*N + k (first coordinate least significant)
    u64 out = 0;
    const unsigned w = 64 / N;
    for (unsigned b = 0; b < w; ++b)
        for (size_t k = 0; k < N; ++k) out |= static_cast<u64>((c[k] >> b) & 1u) << (b * N + k);
    return out;
}

// I: scalar type of the coordinates handed to the layer (the curve is defined on coordinate values; a narrower coordinate
// type over the same 64-bit storage index is a different instantiation and, possibly, different code)
template <size_t N, class I = std::size_t>
static void morton(Report & R, bool thorough)
{
    using BB = cb::morton<cv::vector_d<I, N>, Id1, true>;
    using BP = cb::morton<cv::vector_d<I, N>, Id1, false>;
    static const unsigned bq[5] = {0, 14, 8, 5, 4}, bt[5] = {0, 20, 11, 7, 5};
    const unsigned b = thorough ? bt[N] : bq[N];
    const unsigned w = 64 / N;
    const std::string k = "morton:N" + std::to_string(N) + (std::is_same_v<I, std::size_t> ? "" : (std::is_signed_v<I> ? ":int" : ":unsigned"));
    std::array<size_t, N> ext;
    ext.fill(w == 64 ? ~size_t(0) : (size_t(1) << w));
    auto fb = mk<BB, N>(ext);
    auto fp = mk<BP, N>(ext);
    covfie::field_view<BB> vb(fb);
    covfie::field_view<BP> vp_(fp);
    auto one = [&](const std::array<size_t, N> & c) {
        for (size_t a = 0; a < N; ++a)
            if (c[a] >= ext[a] || c[a] > static_cast<size_t>(std::numeric_limits<I>::max())) return;  // N=1: all-ones is outside the largest expressible extent
        u64 r = ref_morton<N>(c);
        u64 gb = vb.at(to_cov<I, N>(c))[0];
        u64 gp = vp_.at(to_cov<I, N>(c))[0];
        ++R.evaluations;
        R.observe(gb);
        if (gb != r) R.viol(k + ":bmi2", "bmi2-selected implementation gives " + std::to_string(gb) + ", bit interleave is " + std::to_string(r), "morton N" + std::to_string(N) + " c" + vec_str(c, N));
        if (gp != r) R.viol(k + ":portable", "portable implementation gives " + std::to_string(gp) + ", bit interleave is " + std::to_string(r), "morton N" + std::to_string(N) + " c" + vec_str(c, N));
    };
    std::array<size_t, N> hi;
    hi.fill((size_t(1) << b) - 1);
    std::array<size_t, N> lo;
    lo.fill(0);
    for_each_box<N>(lo, hi, one);
    R.counters["exhaustive_bits_per_axis"] = b;
    std::vector<size_t> al = {0, 1, w == 64 ? ~size_t(0) : (size_t(1) << w) - 1};
    for (unsigned kk = 1; kk < w; ++kk)
        for (int d = -1; d <= 1; ++d) al.push_back((size_t(1) << kk) + static_cast<size_t>(static_cast<long>(d)));
    std::sort(al.begin(), al.end());
    al.erase(std::unique(al.begin(), al.end()), al.end());
    if (!thorough && N == 4) {
        std::vector<size_t> t;
        for (size_t i = 0; i < al.size(); i += 2) t.push_back(al[i]);
        t.push_back(al.back());
        al = t;
    }
    for_each_product<N, size_t>(al, one);
    R.counters["boundary_alphabet_size"] = al.size();
    R.nontrivial = R.evaluations;
    std::array<size_t, N> s;
    for (size_t a = 0; a < N; ++a) s[a] = 5 + a;
    R.sample("morton N" + std::to_string(N) + " c" + vec_str(s, N) + " -> " + std::to_string(vb.at(to_cov<I, N>(s))[0]));
}

// ------------------------------------------------------------------ hilbert
static void hilbert(Report & R, bool thorough)
{
    using B = cb::hilbert<SizeN<2>, Id1>;
    const unsigned K = thorough ? 10 : 7;
    for (unsigned k = 0; k <= K; ++k) {
        const size_t side = size_t(1) << k;
        auto f = mk<B, 2>({side, side});
        covfie::field_view<B> v(f);
        const size_t cells = side * side;
        std::vector<uint32_t> at_d(cells, 0xffffffffu);  // d -> packed cell
        const std::string cas = "hilbert k=" + std::to_string(k);
        bool ok = true;
        for (size_t x = 0; x < side && ok; ++x)
            for (size_t y = 0; y < side; ++y) {
                u64 d = v.at(covfie::array::array<size_t, 2>{x, y})[0];
                ++R.evaluations;
                R.observe(d);
                if (d >= cells) {
                    R.viol("hilbert:range", "position " + std::to_string(d) + " outside [0,4^k) at (" + std::to_string(x) + "," + std::to_string(y) + ")", cas);
                    ok = false;
                    break;
                }
                if (at_d[d] != 0xffffffffu) {
                    R.viol("hilbert:bijection", "position " + std::to_string(d) + " visited twice, second time at (" + std::to_string(x) + "," + std::to_string(y) + ")", cas);
                    ok = false;
                    break;
                }
                at_d[d] = static_cast<uint32_t>((x << 16) | y);
            }
        if (!ok) continue;
        if (at_d[0] != 0) R.viol("hilbert:origin", "curve does not start at the origin", cas);
        for (size_t d = 0; d + 1 < cells; ++d) {
            long x0 = at_d[d] >> 16, y0 = at_d[d] & 0xffff, x1 = at_d[d + 1] >> 16, y1 = at_d[d + 1] & 0xffff;
            ++R.transitions;
            if (std::labs(x0 - x1) + std::labs(y0 - y1) != 1) {
                R.viol("hilbert:adjacent", "positions " + std::to_string(d) + " and " + std::to_string(d + 1) + " are not edge-adjacent", cas);
                break;
            }
        }
        ++R.nontrivial;
        R.states += cells;
    }
    R.counters["hilbert_max_k"] = K;
    R.sample("hilbert 2^k x 2^k squares for k=0.." + std::to_string(K) + ": bijection, origin, adjacency");
}

int main(int argc, char ** argv)
{
    std::string what = argc > 1 ? argv[1] : "rowmajor";
    int n = argc > 2 ? std::atoi(argv[2]) : 2;
    bool thorough = argc > 3 && std::string(argv[3]) == "thorough";
    Report R(what + "/N" + std::to_string(n));
#ifdef __BMI2__
    R.infos["bmi2"] = "yes";
#else
    R.infos["bmi2"] = "no";
#endif
#ifdef NDEBUG
    R.infos["ndebug"] = "yes";
#else
    R.infos["ndebug"] = "no";
#endif
    if (what == "rowmajor") {
        if (n == 1) rowmajor<1>(R, thorough);
        if (n == 2) rowmajor<2>(R, thorough);
        if (n == 3) rowmajor<3>(R, thorough);
        if (n == 4) rowmajor<4>(R, thorough);
    } else if (what == "morton") {
        if (n == 1) morton<1>(R, thorough);
        if (n == 2) morton<2>(R, thorough);
        if (n == 2) morton<2, unsigned>(R, thorough);
        if (n == 2) morton<2, int>(R, thorough);
        if (n == 3) morton<3>(R, thorough);
        if (n == 3) morton<3, unsigned>(R, thorough);
        if (n == 4) morton<4>(R, thorough);
    } else {
        hilbert(R, thorough);
    }
    R.emit();
    return 0;
}
