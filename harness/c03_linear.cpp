// C03: linear<B> is the N-linear interpolant over the INPUT dimensions.
// Build parameters: -DVP_N=<1..5> -DVP_KIND=<K_strided|K_morton|K_hilbert|K_clamp> [-DVP_QUICK]
// usage: c03 <B>   (extents 2..B per axis)
#include <cmath>
#include <cstdlib>
#include <limits>
#include <vp/layers.hpp>
#include <vp/report.hpp>
#include <vp/xplore.hpp>

#include <covfie/core/backend/transformer/clamp.hpp>
#include <covfie/core/backend/transformer/linear.hpp>

#ifndef VP_N
#define VP_N 2
#endif
#ifndef VP_KIND
#define VP_KIND K_strided
#endif

using namespace vp;
typedef __float128 q128;

struct K_strided {
    static constexpr const char * name = "strided";
    static constexpr bool clamped = false;
    template <class In, class Ar>
    using inner = cb::strided<In, Ar>;
};
struct K_morton {
    static constexpr const char * name = "morton_portable";
    static constexpr bool clamped = false;
    template <class In, class Ar>
    using inner = cb::morton<In, Ar, false>;
};
struct K_hilbert {
    static constexpr const char * name = "hilbert";
    static constexpr bool clamped = false;
    template <class In, class Ar>
    using inner = cb::hilbert<In, Ar>;
};
struct K_clamp {
    static constexpr const char * name = "clamp_beneath";
    static constexpr bool clamped = true;
    template <class In, class Ar>
    using inner = cb::clamp<cb::strided<In, Ar>>;
};

static std::string only_case;

template <class T>
static double unit_roundoff()
{
    return std::is_same_v<T, float> ? 5.9604644775390625e-08 : 1.1102230246251565e-16;
}

template <class K, size_t N, size_t M, class C, class S>
static void run_cfg(Report & R, size_t Bd, bool full_basis)
{
    using In = cv::vector_d<std::size_t, N>;
    using Ar = cb::array<cv::vector_d<S, M>>;
    using Src = cb::strided<In, Ar>;
    using Inner = typename K::template inner<In, Ar>;
    using Lin = cb::linear<Inner, cv::vector_d<C, N>>;
    const std::string cfg = std::string(K::name) + "/N" + std::to_string(N) + "/M" + std::to_string(M) + "/coord=" + tname<C>::v + "/store=" + tname<S>::v;
    const std::string kcfg = std::string(K::name) + ":N" + std::to_string(N) + (N == M ? ":N=M" : ":N!=M");
    const double u = std::max(unit_roundoff<C>(), unit_roundoff<S>());
    const double tolc = (2.0 * N + double(size_t(1) << N) + 4.0) * u;

    for_each_extent<N>(2, Bd, [&](const std::array<size_t, N> & ext) {
        const std::string cas = cfg + "/ext" + vec_str(ext, N);
        if (!only_case.empty() && only_case.find(cas) != 0) return;
        const size_t cells = product<N>(ext);
        std::vector<std::array<size_t, N>> coords;
        for_each_coord<N>(ext, [&](const std::array<size_t, N> & c) { coords.push_back(c); });
        auto lin_of = [&](const std::array<size_t, N> & c) {
            size_t l = 0;
            for (size_t k = 0; k < N; ++k) l = l * ext[k] + c[k];
            return l;
        };
        // model data: data[lin*M + j]
        std::vector<S> data(cells * M, S(0));
        auto build = [&]() {
            covfie::field<Src> src(covfie::make_parameter_pack(typename Src::configuration_t(to_cov<size_t, N>(ext)), typename Ar::configuration_t{cells}));
            covfie::field_view<Src> sv(src);
            for (size_t a = 0; a < cells; ++a) {
                auto & cell = sv.at(to_cov<size_t, N>(coords[a]));
                for (size_t j = 0; j < M; ++j) cell[j] = data[a * M + j];
            }
            if constexpr (K::clamped) {
                typename Inner::configuration_t cc;
                for (size_t k = 0; k < N; ++k) {
                    cc.min[k] = 0;
                    cc.max[k] = ext[k] - 1;
                }
                typename Inner::owning_data_t inner(cc, typename Src::owning_data_t(src.backend()));
                typename Lin::owning_data_t lo(std::monostate{}, std::move(inner));
                return covfie::field<Lin>(covfie::make_parameter_pack(std::move(lo)));
            } else if constexpr (std::is_same_v<Inner, Src>) {
                return covfie::field<Lin>(src);
            } else {
                covfie::field<Inner> conv(src);
                return covfie::field<Lin>(conv);
            }
        };
        // per-axis coordinate alphabets
        std::array<std::vector<C>, N> al;
        const C eps = static_cast<C>(9.5367431640625e-07);  // 2^-20
        for (size_t k = 0; k < N; ++k) {
            for (size_t i = 0; i + 2 <= ext[k]; ++i) {
                al[k].push_back(static_cast<C>(i));
                if (N <= 4) al[k].push_back(static_cast<C>(i) + eps);
                al[k].push_back(static_cast<C>(i) + static_cast<C>(0.25));
                if (N <= 3) al[k].push_back(static_cast<C>(i) + static_cast<C>(0.5));
                if (N <= 4 || i + 2 == ext[k]) al[k].push_back(static_cast<C>(i + 1) - eps);
                // the closest representable coordinates on either side of a lattice plane, in the coordinate's own precision
                if (N <= 3) {
                    al[k].push_back(std::nextafter(static_cast<C>(i + 1), static_cast<C>(0)));
                    al[k].push_back(std::nextafter(static_cast<C>(i), static_cast<C>(i + 1)));
                }
            }
            if (K::clamped) {
                al[k].push_back(static_cast<C>(ext[k] - 1));
                al[k].push_back(static_cast<C>(ext[k]));
                al[k].push_back(static_cast<C>(ext[k]) + static_cast<C>(0.25));
                al[k].push_back(static_cast<C>(1048576.0));
            }
        }
        // per-coordinate reference data, computed once per extent vector and shared by all data sets
        struct CI {
            std::array<C, N> x;
            bool lattice;
            uint32_t nb[size_t(1) << N];  // model index of neighbour n (bit k of n selects +1 along axis k), through the clamp model if any
            q128 w[size_t(1) << N];       // exact weight of neighbour n
        };
        std::vector<CI> cis;
        for_each_product_axes<N, C>(al, [&](const std::array<C, N> & x) {
            CI ci;
            ci.x = x;
            ci.lattice = true;
            std::array<size_t, N> i;
            std::array<q128, N> fr;
            for (size_t k = 0; k < N; ++k) {
                i[k] = static_cast<size_t>(x[k]);
                fr[k] = static_cast<q128>(x[k]) - static_cast<q128>(i[k]);
                if (fr[k] != 0) ci.lattice = false;
            }
            for (size_t n = 0; n < (size_t(1) << N); ++n) {
                std::array<size_t, N> p;
                q128 w = 1;
                for (size_t k = 0; k < N; ++k) {
                    p[k] = i[k] + ((n >> k) & 1u);
                    // with a clamp beneath, the NEIGHBOUR index goes through the clamp; the fraction does not
                    if (K::clamped && p[k] > ext[k] - 1) p[k] = ext[k] - 1;
                    w *= ((n >> k) & 1u) ? fr[k] : (static_cast<q128>(1) - fr[k]);
                }
                ci.nb[n] = static_cast<uint32_t>(lin_of(p));
                ci.w[n] = w;
            }
            cis.push_back(ci);
        });
        auto check_all = [&](const covfie::field<Lin> & f, const char * pat, long onehot /* model index or -1 */) {
            covfie::field_view<Lin> v(f);
            for (const CI & ci : cis) {
                covfie::array::array<C, N> xc;
                for (size_t k = 0; k < N; ++k) xc[k] = ci.x[k];
                auto got = v.at(xc);
                ++R.evaluations;
                q128 wsum = 0;
                size_t hits = 0;
                if (onehot >= 0) {
                    for (size_t n = 0; n < (size_t(1) << N); ++n)
                        if (ci.nb[n] == static_cast<uint32_t>(onehot)) {
                            wsum += ci.w[n];
                            ++hits;
                        }
                }
                for (size_t j = 0; j < M; ++j) {
                    q128 exact = 0, mag = 0;
                    double vmin = 0, vmax = 0;
                    if (onehot >= 0) {
                        const double hv = static_cast<double>(static_cast<C>(static_cast<S>(j + 1)));
                        exact = wsum * static_cast<q128>(hv);
                        mag = exact;
                        vmin = (hits == (size_t(1) << N)) ? hv : 0.0;
                        vmax = hits ? hv : 0.0;
                    } else {
                        for (size_t n = 0; n < (size_t(1) << N); ++n) {
                            // stored value as the interpolator sees it: converted to the coordinate precision
                            const double vd = static_cast<double>(static_cast<C>(data[ci.nb[n] * M + j]));
                            const q128 vq = static_cast<q128>(vd);
                            if (n == 0 || vd < vmin) vmin = vd;
                            if (n == 0 || vd > vmax) vmax = vd;
                            exact += ci.w[n] * vq;
                            mag += ci.w[n] * (vq < 0 ? -vq : vq);
                        }
                    }
                    const double g = static_cast<double>(got[j]);
                    // relative term from the operation count + an absolute floor for gradual underflow of weight products
                    // norm-wise: relative to the largest surrounding lattice value, so that formulations which difference
                    // stored values (nested lerps) are judged as "up to rounding" too; a wrong weight or neighbour is off by
                    // a fraction of that magnitude, ten orders of magnitude above this
                    (void)mag;
                    const double vabs = std::max(std::fabs(vmin), std::fabs(vmax));
                    const double tol = tolc * vabs + double(size_t(1) << N) * static_cast<double>(std::numeric_limits<C>::min()) * (vabs + 1.0);
                    const double err = std::fabs(static_cast<double>(static_cast<q128>(g) - exact));
                    R.observe(fnv_of(g));
                    auto cs = [&]() { return cas + "/pat=" + pat + (onehot >= 0 ? std::to_string(onehot) : "") + "/x" + vec_str(ci.x, N) + "/j" + std::to_string(j); };
                    if (!(err <= tol)) {
                        R.viol("interp:" + kcfg, "got " + std::to_string(g) + ", N-linear interpolant is " + std::to_string(static_cast<double>(exact)) + " (|err| " + std::to_string(err) + " > tol " + std::to_string(tol) + ")", cs());
                    }
                    if (ci.lattice) {
                        // neighbour 0 is the lattice point itself; exact equality after conversion to the coordinate precision
                        S stored = data[ci.nb[0] * M + j];
                        S expect = static_cast<S>(static_cast<C>(stored));
                        ++R.counters["lattice_point_checks"];
                        if (!(got[j] == expect)) R.viol("lattice:" + kcfg, "at a lattice point got " + std::to_string(g) + " but the stored value is " + std::to_string(static_cast<double>(expect)), cs());
                    }
                    const double slack = tolc * std::max(std::fabs(vmin), std::fabs(vmax)) + tol;
                    if (!(g >= vmin - slack && g <= vmax + slack)) R.viol("range:" + kcfg, "result " + std::to_string(g) + " leaves the range [" + std::to_string(vmin) + "," + std::to_string(vmax) + "] of the surrounding lattice values", cs());
                }
            }
        };
        // --- one-hot basis
        for (size_t p = 0; p < cells; ++p) {
            if (!full_basis) {
                // only the corners of the LAST cell and of the first cell (2^N each, may overlap)
                bool first = true, last = true;
                for (size_t k = 0; k < N; ++k) {
                    if (coords[p][k] > 1) first = false;
                    if (coords[p][k] + 2 < ext[k]) last = false;
                }
                if (!first && !last) continue;
            }
            std::fill(data.begin(), data.end(), S(0));
            for (size_t j = 0; j < M; ++j) data[p * M + j] = static_cast<S>(j + 1);
            auto f = build();
            check_all(f, "onehot", static_cast<long>(p));
            ++R.states;
        }
        // --- four non-affine full patterns
        for (int pat = 0; pat < 4; ++pat) {
            for (size_t a = 0; a < cells; ++a)
                for (size_t j = 0; j < M; ++j) {
                    double val;
                    if (pat == 0) val = double((a + 1) * (a + 1)) + double(j);
                    else if (pat == 1) val = ((a & 1) ? -1.0 : 1.0) * std::ldexp(1.0 + double(j) * 0.25, ((a / 2) & 1) ? 20 : -20) * double(1 + (a % 3));
                    else if (pat == 2) val = 1000.3 * double(j) + double(a) / 3.0 + 0.1;  // not representable in single precision
                    else {
                        // "arbitrary finite stored values": neighbours of opposite sign along every axis, each close to the
                        // largest finite value of the narrower of the two scalar types. The interpolant is finite (weights
                        // are a convex combination); a formulation that differences neighbours overflows
                        size_t par = 0;
                        for (size_t k = 0; k < N; ++k) par += coords[a][k];
                        const double big = 0.9 * std::min(static_cast<double>(std::numeric_limits<S>::max()), static_cast<double>(std::numeric_limits<C>::max()));
                        val = ((par & 1) ? -1.0 : 1.0) * big * (1.0 - 0.01 * double(j));
                    }
                    data[a * M + j] = static_cast<S>(val);
                }
            auto f = build();
            check_all(f, pat == 0 ? "squares" : pat == 1 ? "altsign_2^+-20" : pat == 2 ? "components" : "altsign_near_max", -1);
            ++R.states;
        }
        ++R.nontrivial;
        if (R.samples.size() < 2) R.sample(cas + " cells=" + std::to_string(cells) + " axis0 alphabet size=" + std::to_string(al[0].size()));
    });
    R.counters["configurations"]++;
}

template <class K, size_t N, size_t M>
static void run_M(Report & R, size_t B, bool fb)
{
    run_cfg<K, N, M, float, float>(R, B, fb);
    run_cfg<K, N, M, double, double>(R, B, fb);
#ifndef VP_QUICK
    run_cfg<K, N, M, float, double>(R, B, fb);
    run_cfg<K, N, M, double, float>(R, B, fb);
#endif
}

int main(int argc, char ** argv)
{
    size_t B = argc > 1 ? std::strtoul(argv[1], nullptr, 10) : 3;
    bool fb = !(argc > 2 && std::string(argv[2]) == "localbasis");
    if (const char * oc = std::getenv("VP_ONLY_CASE")) only_case = oc;
    Report R(std::string(VP_KIND::name) + "/N" + std::to_string(VP_N));
    run_M<VP_KIND, VP_N, 1>(R, B, fb);
    run_M<VP_KIND, VP_N, 3>(R, B, fb);
#ifndef VP_QUICK
    run_M<VP_KIND, VP_N, 2>(R, B, fb);
    run_M<VP_KIND, VP_N, 4>(R, B, fb);
#endif
    R.infos["basis"] = fb ? "full one-hot basis" : "one-hot at the corners of the first and last cell";
    R.emit();
    return 0;
}
