// C19: nd_map visits every index tuple of the box exactly once and nothing else.
#include <cstdlib>
#include <vp/report.hpp>
#include <vp/xplore.hpp>

#include <covfie/core/utility/nd_map.hpp>
#include <covfie/core/utility/nd_size.hpp>

using namespace vp;

template <size_t N, class T>
static void one_box(Report & R, const std::array<size_t, N> & ext, const char * tn)
{
    using Tup = covfie::array::array<T, N>;
    Tup s;
    for (size_t k = 0; k < N; ++k) s[k] = static_cast<T>(ext[k]);
    const size_t cells = product<N>(ext);
    std::vector<unsigned> count(cells ? cells : 1, 0);
    size_t calls = 0, outside = 0;
    bool rowmajor = true;
    size_t prev = 0;
    covfie::utility::nd_map<Tup>(
        [&](Tup t) {
            ++calls;
            size_t lin = 0;
            bool in = true;
            for (size_t k = 0; k < N; ++k) {
                if (static_cast<size_t>(t[k]) >= ext[k] || t[k] < 0) in = false;
                lin = lin * ext[k] + static_cast<size_t>(t[k]);
            }
            if (!in) {
                ++outside;
                return;
            }
            if (calls > 1 && lin != prev + 1) rowmajor = false;
            prev = lin;
            ++count[lin];
        },
        s
    );
    const std::string cas = std::string("nd_map N") + std::to_string(N) + " " + tn + " ext" + vec_str(ext, N);
    ++R.evaluations;
    R.transitions += calls;
    R.observe(calls);
    if (outside) R.viol("outside:N" + std::to_string(N), std::to_string(outside) + " callbacks with a tuple outside the box", cas);
    if (calls != cells + outside - 0 && !outside) R.viol("count:N" + std::to_string(N), "callback invoked " + std::to_string(calls) + " times for " + std::to_string(cells) + " cells", cas);
    for (size_t i = 0; i < cells; ++i)
        if (count[i] != 1) {
            R.viol("multiplicity:N" + std::to_string(N), "index tuple #" + std::to_string(i) + " visited " + std::to_string(count[i]) + " times", cas);
            break;
        }
    if (cells > 1) ++R.nontrivial;  // non-trivial: more than one cell
    if (!rowmajor) R.counters["not_rowmajor_order"]++;
    if (cells == 0) R.counters["empty_boxes"]++;
}

template <size_t N>
static void dim(Report & R, size_t B, bool thorough)
{
    for_each_extent<N>(0, B, [&](const std::array<size_t, N> & e) {
        one_box<N, std::size_t>(R, e, "size_t");
        one_box<N, int>(R, e, "int");
    });
    // a few larger boxes (deterministic): one long axis, the others in {0,1,2}
    std::vector<size_t> small = {0, 1, 2};
    for (size_t longaxis = 0; longaxis < N; ++longaxis)
        for (size_t L : {size_t(37), size_t(thorough ? 1000 : 100)})
            for_each_product<N, size_t>(small, [&](std::array<size_t, N> e) {
                e[longaxis] = L;
                one_box<N, std::size_t>(R, e, "size_t");
            });
    R.sample("N=" + std::to_string(N) + " all extent vectors in 0.." + std::to_string(B) + " (size_t and int tuples) + long-axis boxes");
}

int main(int argc, char ** argv)
{
    bool thorough = argc > 1 && std::string(argv[1]) == "thorough";
    Report R("nd_map");
    static const size_t BQ[6] = {0, 8, 5, 4, 3, 3}, BT[6] = {0, 40, 12, 7, 5, 4};
    const size_t * B = thorough ? BT : BQ;
    dim<1>(R, B[1], thorough);
    dim<2>(R, B[2], thorough);
    dim<3>(R, B[3], thorough);
    dim<4>(R, B[4], thorough);
    dim<5>(R, B[5], thorough);
    R.emit();
    return 0;
}
