// C16: concurrent lookups are race-free and deterministic.
// Build: -DVP_LAYER=<tag> ; usage: c16 explore <bound|-1> <max_schedules_per_config> [config filter]
//                                 c16 free <T>          (free-running threads, for the ThreadSanitizer build)
#include <cstdlib>
#include <algorithm>
#include <cstring>
#include <optional>
#include <set>
#include <thread>
#include <atomic>
#include <chrono>
#include <execinfo.h>
#include <csignal>
#include <unistd.h>
#include <vp/interp.hpp>
#include <vp/layers.hpp>
#include <vp/probe.hpp>
#include <vp/report.hpp>
#include <vp/sched.hpp>
#include <cerrno>
#include <vp/interpose.hpp>
#include <vp/xplore.hpp>

#include <covfie/core/backend/transformer/affine.hpp>
#include <covfie/core/backend/transformer/backup.hpp>
#include <covfie/core/backend/transformer/clamp.hpp>
#include <covfie/core/backend/transformer/linear.hpp>
#include <covfie/core/backend/transformer/nearest_neighbour.hpp>

#ifndef VP_LAYER
#define VP_LAYER L_strided
#endif
using namespace vp;

struct Access {
    int tid;
    size_t idx;
    bool write;
};
static std::vector<Access> g_log;
static thread_local bool tl_write_intent = false;
static bool g_explore_mode = false;
static size_t g_oob = 0;

static void hook(const void *, size_t idx, size_t size)
{
    if (!g_explore_mode) return;
    if (Sched::tl_id >= 0) {
        Sched::current->point();  // scheduling point BEFORE the access is performed
        g_log.push_back({Sched::tl_id, idx, tl_write_intent});
        if (idx >= size) ++g_oob;
    }
}

#ifdef VP_FN_POINTS
// Built with -finstrument-functions (library headers only; harness, vp/ and system headers are excluded on the command line):
// every entry into a covfie function is an additional scheduling point, so state that a layer keeps BETWEEN two storage
// accesses (a memo, a scratch buffer) can be interleaved by the explorer, not only observed by ThreadSanitizer.
static thread_local bool tl_in_fn_hook = false;
extern "C" {
void __cyg_profile_func_enter(void *, void *) __attribute__((no_instrument_function));
void __cyg_profile_func_exit(void *, void *) __attribute__((no_instrument_function));
void __cyg_profile_func_enter(void *, void *)
{
    if (g_explore_mode && Sched::tl_active && !Sched::tl_busy && !tl_in_fn_hook) {
        tl_in_fn_hook = true;
        Sched::current->point();
        tl_in_fn_hook = false;
    }
}
void __cyg_profile_func_exit(void *, void *)
{
}
}
#endif

#ifdef VP_BB_POINTS
// Built with -fsanitize-coverage=trace-pc: the compiler calls __sanitizer_cov_trace_pc() at the start of every basic block.
// Blocks whose enclosing symbol lives in namespace covfie (resolved once per address with dladdr; needs -rdynamic) become
// scheduling points, which gives the explorer statement-level interleavings INSIDE library functions, e.g. between the
// test of a "ready" flag and the write that sets it.
#include <dlfcn.h>
#include <unordered_map>
static thread_local bool tl_in_bb_hook = false;
static std::unordered_map<void *, bool> g_pc_cache;
static std::atomic_flag g_pc_lock = ATOMIC_FLAG_INIT;
static std::atomic<long> g_pc_contended{0};
__attribute__((no_sanitize_coverage)) static bool pc_in_covfie_locked(void * pc);
__attribute__((no_sanitize_coverage)) static bool pc_in_covfie(void * pc)
{
    if (g_pc_lock.test_and_set(std::memory_order_acquire)) {
        ++g_pc_contended;
        while (g_pc_lock.test_and_set(std::memory_order_acquire)) {}
    }
    bool r = pc_in_covfie_locked(pc);
    g_pc_lock.clear(std::memory_order_release);
    return r;
}
__attribute__((no_sanitize_coverage)) static bool pc_in_covfie_locked(void * pc)
{
    auto it = g_pc_cache.find(pc);
    if (it != g_pc_cache.end()) return it->second;
    Dl_info info;
    bool yes = false;
    if (dladdr(pc, &info) && info.dli_sname) {
        const char * n = info.dli_sname;
        yes = !std::strncmp(n, "_ZN6covfie", 10) || !std::strncmp(n, "_ZNK6covfie", 11) || !std::strncmp(n, "_ZZN6covfie", 11) || !std::strncmp(n, "_ZZNK6covfie", 12) || !std::strncmp(n, "_ZGVZN6covfie", 13);
    }
    g_pc_cache[pc] = yes;
    return yes;
}
extern "C" __attribute__((no_sanitize_coverage)) void __sanitizer_cov_trace_pc()
{
    // the guard is set before anything that may itself be instrumented (TLS wrappers, the map, the scheduler)
    if (!g_explore_mode || tl_in_bb_hook) return;
    tl_in_bb_hook = true;
    if (Sched::tl_active && !Sched::tl_busy && pc_in_covfie(__builtin_return_address(0))) Sched::current->point();
    tl_in_bb_hook = false;
}
#endif

enum Interp { DIRECT, NN, LINEAR, CLAMPED, AFFINE_NN, BACKUP_ST };
static const char * IN[] = {"direct", "nn", "linear", "clamp", "affine_nn", "backup"};

template <class L, size_t N, int I>
struct Cfg {
    using In = cv::vector_d<std::size_t, N>;
    using Ar = probe_array<cv::float1>;
    using St = typename L::template apply<In, Ar>;
    using NNt = cb::nearest_neighbour<St, cv::vector_d<float, N>>;
    using B = std::conditional_t<I == DIRECT, St,
              std::conditional_t<I == NN, NNt,
              std::conditional_t<I == LINEAR, cb::linear<St, cv::vector_d<float, N>>,
              std::conditional_t<I == CLAMPED, cb::clamp<St>,
              std::conditional_t<I == BACKUP_ST, cb::backup<St>, cb::affine<NNt>>>>>>;
    using coord_scalar = std::conditional_t<(I == DIRECT || I == CLAMPED || I == BACKUP_ST), std::size_t, float>;
    // BACKUP_ST: region [2, 6] on every axis of the 8^N field. Readers look up coordinates outside the region (answered
    // with the default: no storage cell is needed for them) and inside it (components 3, 4); the writers own cells on the
    // border of the region, (2|5|6, 2, 2, ..), and write them through the storage view beneath the backup layer
    static constexpr bool writes_through_inner_view = (I == BACKUP_ST);
    static constexpr int n_writer_cells = (I == CLAMPED || I == BACKUP_ST) ? 3 : 4;  // writer_coord(0 .. n-1) are pairwise distinct cells
    using coord_t = covfie::array::array<coord_scalar, N>;
    static constexpr size_t EXT = 8;
    static std::string name()
    {
        return std::string(L::name) + "/" + IN[I] + "/N" + std::to_string(N);
    }
    static covfie::field<B> make()
    {
        std::array<size_t, N> ext;
        ext.fill(EXT);
        covfie::field<St> st(covfie::make_parameter_pack(typename St::configuration_t(to_cov<size_t, N>(ext)), typename Ar::configuration_t{L::template doc_len<N>(ext)}));
        if constexpr (I == DIRECT) {
            return st;
        } else if constexpr (I == CLAMPED) {
            // box [1, EXT-2]: the readers' coordinates (components 0, 2, 9) need clamping from below and from above, with
            // different results per thread; the writers own cells (3|4|5, 3, 3, ..), which no clamped reader coordinate reaches
            typename B::configuration_t cc;
            for (size_t k = 0; k < N; ++k) {
                cc.min[k] = 1;
                cc.max[k] = EXT - 2;
            }
            typename B::owning_data_t o(cc, typename St::owning_data_t(st.backend()));
            return covfie::field<B>(covfie::make_parameter_pack(std::move(o)));
        } else if constexpr (I == BACKUP_ST) {
            typename B::configuration_t cc;
            for (size_t k = 0; k < N; ++k) {
                cc.min[k] = 2;
                cc.max[k] = 6;
            }
            cc.default_value[0] = -5.f;
            typename B::owning_data_t o(cc, typename St::owning_data_t(st.backend()));
            return covfie::field<B>(covfie::make_parameter_pack(std::move(o)));
        } else if constexpr (I == AFFINE_NN) {
            typename NNt::owning_data_t inner(std::monostate{}, typename St::owning_data_t(st.backend()));
            typename B::owning_data_t o(typename B::configuration_t(covfie::algebra::affine<N, float>::identity()), std::move(inner));
            return covfie::field<B>(covfie::make_parameter_pack(std::move(o)));
        } else {
            typename B::owning_data_t o(std::monostate{}, typename St::owning_data_t(st.backend()));
            return covfie::field<B>(covfie::make_parameter_pack(std::move(o)));
        }
    }
    static typename St::non_owning_data_t storage_view(const covfie::field<B> & f)
    {
        if constexpr (I == DIRECT) return typename St::non_owning_data_t(f.backend());
        else if constexpr (I == AFFINE_NN) return typename St::non_owning_data_t(f.backend().get_backend().get_backend());
        else return typename St::non_owning_data_t(f.backend().get_backend());
    }
    // the flat storage of a field, reached without constructing a view of any layer
    static const typename Ar::owning_data_t & raw_storage(const covfie::field<B> & f)
    {
        if constexpr (I == DIRECT) return f.backend().get_backend();
        else if constexpr (I == AFFINE_NN) return f.backend().get_backend().get_backend().get_backend();
        else return f.backend().get_backend().get_backend();
    }
    // a field with the same cells as f of which no view has ever been made (the state a field is in after loading or
    // conversion): whatever a layer sets up when it is first viewed happens inside the worker threads
    static covfie::field<B> never_viewed_twin(const covfie::field<B> & f)
    {
        covfie::field<B> g = make();
        const auto & src = raw_storage(f);
        const auto & dst = raw_storage(g);
        std::memcpy(dst.m_ptr.get(), src.m_ptr.get(), src.m_size * sizeof(src.m_ptr[0]));
        return g;
    }
    static void reset(const covfie::field<B> & f)
    {
        auto sv = storage_view(f);
        std::array<size_t, N> ext;
        ext.fill(EXT);
        size_t lin = 0;
        for_each_coord<N>(ext, [&](const std::array<size_t, N> & c) { sv.at(to_cov<size_t, N>(c))[0] = static_cast<float>(1 + (lin++ * 7) % 13); });
    }
    static uint64_t storage_digest(const covfie::field<B> & f)
    {
        auto sv = storage_view(f);
        std::array<size_t, N> ext;
        ext.fill(EXT);
        uint64_t h = 1469598103934665603ull;
        for_each_coord<N>(ext, [&](const std::array<size_t, N> & c) { h = fnv_of(sv.at(to_cov<size_t, N>(c))[0], h); });
        return h;
    }
    // coordinate #k of a small table: readers use k = 0..5 (inside [0, EXT-2] so that linear stays in its domain),
    // writers use cells with every component == EXT-1 or pattern (3,k..) that no reader touches (readers stay <= 2.x)
    static coord_t reader_coord(int k)
    {
        coord_t c;
        if constexpr (I == CLAMPED) {
            static const int comp[3] = {0, 2, 9};
            for (size_t a = 0; a < N; ++a) c[a] = static_cast<coord_scalar>(comp[(static_cast<size_t>(k) + a) % 3]);
            return c;
        }
        if constexpr (I == BACKUP_ST) {
            // even k: outside the region (components 0 / 1); odd k: inside (components 3 / 4)
            for (size_t a = 0; a < N; ++a) c[a] = static_cast<coord_scalar>((k % 2 ? 3 : 0) + ((k / 2 + a) % 2));
            return c;
        }
        for (size_t a = 0; a < N; ++a) {
            float v = static_cast<float>((k + a) % 2) + (I == LINEAR ? 0.25f * static_cast<float>(1 + (k + a) % 3) : ((I == NN || I == AFFINE_NN) ? 0.25f : 0.f));
            c[a] = static_cast<coord_scalar>(v);
        }
        return c;
    }
    static coord_t writer_coord(int k)
    {
        // readers never reach index 3 (linear reads up to floor(1.75)+1 = 2); writers own the cells (4+k%4, 3, 3, ..)
        coord_t c;
        if constexpr (I == CLAMPED) {
            for (size_t a = 0; a < N; ++a) c[a] = static_cast<coord_scalar>(3);
            c[0] = static_cast<coord_scalar>(3 + k % 3);
            return c;
        }
        if constexpr (I == BACKUP_ST) {
            static const int first[4] = {2, 5, 6, 5};
            for (size_t a = 0; a < N; ++a) c[a] = static_cast<coord_scalar>(2);
            c[0] = static_cast<coord_scalar>(first[k % 4]);
            return c;
        }
        for (size_t a = 0; a < N; ++a) c[a] = static_cast<coord_scalar>(3);
        c[0] = static_cast<coord_scalar>(4 + k % 4);
        return c;
    }
};

struct Action {
    bool write;
    int k;
    float v;
};
using Program = std::vector<std::vector<Action>>;  // per thread

template <class C>
static void run_program_thread(const typename covfie::field_view<typename C::B> & view, const std::vector<Action> & acts, std::vector<float> & res)
{
    for (const Action & a : acts) {
        if (a.write) {
            if constexpr (C::writes_through_inner_view) {
                tl_write_intent = true;
                auto w = view;  // field_view::backend() is a non-const member; views are value types over the same storage
                w.backend().get_backend().at(C::writer_coord(a.k))[0] = a.v;
                tl_write_intent = false;
            } else if constexpr (std::is_reference_v<typename covfie::field_view<typename C::B>::output_t>) {
                tl_write_intent = true;
                view.at(C::writer_coord(a.k))[0] = a.v;
                tl_write_intent = false;
            }
        } else {
            auto r = view.at(C::reader_coord(a.k));
            res.push_back(r[0]);
        }
    }
}

static std::string g_filter;
static double g_budget_s = 120.0;  // wall-clock budget per configuration: exceeding it ends the enumeration as "capped", never as a failure
static double now_s()
{
    return std::chrono::duration<double>(std::chrono::steady_clock::now().time_since_epoch()).count();
}

template <class C>
static void explore_config(Report & R, const std::string & pname, const Program & prog, bool shared_view, int bound, uint64_t max_sched, bool fresh_field = false)
{
    const std::string name = C::name() + "/" + pname + (shared_view ? "/sharedview" : (fresh_field ? "/ownviews_of_unviewed_field" : "/ownviews")) + "/bound" + (bound < 0 ? std::string("inf") : std::to_string(bound));
    if (!g_filter.empty() && name.find(g_filter) == std::string::npos) return;
    const int T = static_cast<int>(prog.size());
    auto field = C::make();
    using view_t = covfie::field_view<typename C::B>;
    view_t shared(field);
    // sequential reference (thread order 0,1,2 and reversed must agree: the programs touch disjoint cells when writing)
    std::vector<std::vector<float>> expect(T), expect_rev(T);
    C::reset(field);
    for (int i = 0; i < T; ++i) run_program_thread<C>(shared, prog[i], expect[i]);
    const uint64_t expect_storage = C::storage_digest(field);
    C::reset(field);
    for (int i = T - 1; i >= 0; --i) run_program_thread<C>(shared, prog[i], expect_rev[i]);
    if (expect != expect_rev || expect_storage != C::storage_digest(field)) {
        std::printf("INTERNAL: program %s is order-dependent even sequentially\n", name.c_str());
        std::exit(3);
    }
    Sched sched(T);
    Sched::current = &sched;
    std::vector<std::vector<float>> res(T);
    std::optional<covfie::field<typename C::B>> twin;  // fresh_field: rebuilt for every execution, never viewed before the workers start
    sched.body = [&](int i) {
        if (shared_view) {
            run_program_thread<C>(shared, prog[i], res[i]);
        } else {
            view_t own(fresh_field ? *twin : field);
            run_program_thread<C>(own, prog[i], res[i]);
        }
    };
    std::set<uint64_t> outcomes;
    ExploreStats st;
    auto check = [&](const Execution & x, bool replaying) -> uint64_t {
        uint64_t h = 1469598103934665603ull;
        for (int i = 0; i < T; ++i)
            for (float f : res[i]) h = fnv_of(f, h);
        h = fnv_of(C::storage_digest(fresh_field ? *twin : field), h);
        (void)x;
        (void)replaying;
        return h;
    };
    auto run_one = [&](const std::vector<int> & prefix, Execution & x) {
        C::reset(field);
        if (fresh_field) twin.emplace(C::never_viewed_twin(field));
        for (auto & r : res) r.clear();
        g_log.clear();
        g_oob = 0;
        g_explore_mode = true;
        vp::g_sched_active_mode = true;
        bool ok = run_schedule(sched, prefix, x);
        vp::g_sched_active_mode = false;
        g_explore_mode = false;
        return ok;
    };
    auto sched_str = [&](const Execution & x) {
        std::string s;
        for (int t : x.order) s += char('0' + t);
        return s;
    };
    // the explorer calls run_schedule itself; wrap per-execution setup through on_exec ordering: we drive manually
    const double t_start = now_s();
    std::vector<std::vector<int>> stack;
    stack.push_back({});
    while (!stack.empty()) {
        std::vector<int> prefix = std::move(stack.back());
        stack.pop_back();
        Execution x;
        if (!run_one(prefix, x)) {
            // The code under test keeps state from one execution into the next (a process-wide cache, say), so a
            // recorded prefix no longer meets the same scheduling points. That is not a violation of the property; the
            // enumeration of this program cannot be completed in one process and is reported as capped. (The results
            // of the diverged execution are still put to the oracle below.)
            ++st.divergences;
            st.stopped = true;
            R.counters["configs_not_replay_deterministic"]++;
        }
        ++st.schedules;
        st.points += x.points.size();
        st.max_preemptions_seen = std::max(st.max_preemptions_seen, x.preemptions);
        // ---- oracle for this schedule
        uint64_t h = check(x, false);
        outcomes.insert(h);
        std::string why;
        for (int i = 0; i < T && why.empty(); ++i)
            if (res[i] != expect[i]) why = "thread " + std::to_string(i) + " obtained different values than the sequential execution";
        if (why.empty() && C::storage_digest(fresh_field ? *twin : field) != expect_storage) why = "final storage differs from the sequential execution";
        if (why.empty() && g_oob) why = "a storage access outside the field's cells";
        if (why.empty() && x.deadlock) why = "deadlock: every remaining thread waits for a lock / initialisation another waiting thread holds";
        if (why.empty()) {
            for (size_t a = 0; a < g_log.size() && why.empty(); ++a)
                if (g_log[a].write)
                    for (size_t b = 0; b < g_log.size(); ++b)
                        if (g_log[b].tid != g_log[a].tid && g_log[b].idx == g_log[a].idx) {
                            why = "cell " + std::to_string(g_log[a].idx) + " is written by thread " + std::to_string(g_log[a].tid) + " and accessed by thread " + std::to_string(g_log[b].tid) + " without synchronisation";
                            break;
                        }
        }
        if (!why.empty()) {
            // replay before report: identical observations twice
            Execution x2, x3;
            std::vector<int> full;
            for (auto & p : x.points) full.push_back(p.chosen_index);
            bool r2 = run_one(full, x2);
            uint64_t h2 = check(x2, true);
            bool r3 = run_one(full, x3);
            uint64_t h3 = check(x3, true);
            if (!r2 || !r3 || h2 != h3 || h2 != h) R.viol("unstable_replay:" + C::name(), "schedule " + sched_str(x) + " does not reproduce its observations", name + "/schedule=" + sched_str(x));
            else R.viol("schedule:" + C::name(), why + " (schedule " + sched_str(x) + ", " + std::to_string(x.preemptions) + " preemptions)", name + "/schedule=" + sched_str(x));
            if (R.violations > 20) break;
        }
        if (st.divergences) break;
        if (st.schedules >= max_sched || now_s() - t_start > g_budget_s) {
            st.stopped = true;
            break;
        }
        std::vector<int> choices;
        for (auto & p : x.points) choices.push_back(p.chosen_index);
        std::vector<int> before(x.points.size() + 1, 0);
        int pre = 0;
        for (size_t i = 0; i < x.points.size(); ++i) {
            before[i] = pre;
            if (x.points[i].running_still_enabled && x.points[i].chosen_index != 0) ++pre;
        }
        for (size_t i = x.points.size(); i-- > prefix.size();) {
            const auto & p = x.points[i];
            for (int alt = static_cast<int>(p.enabled.size()) - 1; alt >= 1; --alt) {
                int cost = before[i] + (p.running_still_enabled ? 1 : 0);
                if (bound >= 0 && cost > bound) continue;
                std::vector<int> np(choices.begin(), choices.begin() + static_cast<long>(i));
                np.push_back(alt);
                stack.push_back(std::move(np));
            }
        }
    }
    Sched::current = nullptr;
    R.evaluations += st.schedules;
    R.states += st.schedules;
    R.transitions += st.points;
    R.traces += st.schedules;
    ++R.nontrivial;
    R.counters["distinct_outcomes_max"] = std::max<uint64_t>(R.counters["distinct_outcomes_max"], outcomes.size());
    if (st.stopped) R.counters["configs_capped"]++;
    if (outcomes.size() > 1 && R.violations == 0) R.viol("outcomes:" + C::name(), std::to_string(outcomes.size()) + " distinct outcomes over the schedules of one program", name);
    char buf[300];
    std::snprintf(buf, sizeof buf, "%s schedules=%llu points=%llu max_preemptions=%d outcomes=%zu%s", name.c_str(), (unsigned long long)st.schedules, (unsigned long long)st.points, st.max_preemptions_seen, outcomes.size(), st.stopped ? " CAPPED" : "");
    R.sample(buf, 400);
}

template <class C>
static void programs_for(Report & R, int bound, uint64_t max_sched, bool thorough)
{
    constexpr bool writable = std::is_reference_v<typename covfie::field_view<typename C::B>::output_t> || C::writes_through_inner_view;
    Program two_one = {{{false, 0, 0}}, {{false, 1, 0}}};
    Program two_same = {{{false, 2, 0}}, {{false, 2, 0}}};
    Program three_two = {{{false, 0, 0}, {false, 3, 0}}, {{false, 1, 0}, {false, 4, 0}}, {{false, 2, 0}, {false, 0, 0}}};
    explore_config<C>(R, "2x1lookup", two_one, true, -1, max_sched);
    explore_config<C>(R, "2x1lookup", two_one, false, -1, max_sched);
    explore_config<C>(R, "2x1same", two_same, true, -1, max_sched);
    explore_config<C>(R, "3x2lookups", three_two, true, bound, max_sched);
    if (thorough) explore_config<C>(R, "3x2lookups", three_two, false, bound, max_sched);
    if constexpr (writable) {
        Program rw = {{{false, 0, 0}, {false, 3, 0}}, {{true, 0, 41.f}, {true, 1, 42.f}}, {{false, 1, 0}, {true, 2, 43.f}}};
        explore_config<C>(R, "2readers+writer", rw, true, bound, max_sched);
        explore_config<C>(R, "2readers+writer", rw, false, bound, max_sched);
    }
}

static bool g_fn_thorough = true;
template <class C>
static void programs_fn(Report & R, int bound, uint64_t max_sched)
{
    // programs aimed at state kept between storage accesses: a previous lookup primes it, another thread comes in between
    Program prime_then_same = {{{false, 0, 0}, {false, 1, 0}}, {{false, 1, 0}}};
    Program one_vs_twice = {{{false, 0, 0}}, {{false, 1, 0}, {false, 1, 0}}};
    Program two_one = {{{false, 0, 0}}, {{false, 1, 0}}};
    explore_config<C>(R, "prime_then_same", prime_then_same, true, bound, max_sched);
    explore_config<C>(R, "2x1lookup", two_one, true, bound, max_sched);
    explore_config<C>(R, "2x1lookup", two_one, false, bound, max_sched, true);
    if (g_fn_thorough) {
        explore_config<C>(R, "one_vs_twice", one_vs_twice, true, bound, max_sched);
        explore_config<C>(R, "prime_then_same", prime_then_same, false, bound, max_sched);
    }
}
template <class L, size_t N>
static void all_interps_fn(Report & R, int bound, uint64_t max_sched)
{
    programs_fn<Cfg<L, N, DIRECT>>(R, bound, max_sched);
    programs_fn<Cfg<L, N, NN>>(R, bound, max_sched);
    programs_fn<Cfg<L, N, LINEAR>>(R, bound, max_sched);
    programs_fn<Cfg<L, N, CLAMPED>>(R, bound, max_sched);
    programs_fn<Cfg<L, N, AFFINE_NN>>(R, bound, max_sched);
    programs_fn<Cfg<L, N, BACKUP_ST>>(R, bound, max_sched);
}

template <class L, size_t N>
static void all_interps(Report & R, int bound, uint64_t max_sched, bool thorough)
{
    programs_for<Cfg<L, N, DIRECT>>(R, bound, max_sched, thorough);
    programs_for<Cfg<L, N, NN>>(R, bound, max_sched, thorough);
    programs_for<Cfg<L, N, LINEAR>>(R, bound, max_sched, thorough);
    programs_for<Cfg<L, N, CLAMPED>>(R, bound, max_sched, thorough);
    programs_for<Cfg<L, N, AFFINE_NN>>(R, bound, max_sched, thorough);
    programs_for<Cfg<L, N, BACKUP_ST>>(R, bound, max_sched, thorough);
    if constexpr (N == 3 && std::is_same_v<L, L_strided>) {
        // the generic (N >= 4) path of the interpolator: two 4-D lookups have 2 x 17 scheduling points, explored with the bound
        Program two_one = {{{false, 0, 0}}, {{false, 1, 0}}};
        explore_config<Cfg<L, 4, LINEAR>>(R, "2x1lookup", two_one, true, bound < 0 ? 2 : bound, max_sched);
        explore_config<Cfg<L, 4, LINEAR>>(R, "2x1lookup", two_one, false, bound < 0 ? 2 : bound, max_sched);
    }
}


// ------------------------------------------------------------------ cold-start exploration
// Every schedule runs in a freshly forked child: function-local statics, lazily built tables and "first use" flags are in
// their initial state for every schedule, and the parent never performs a lookup. Expected values come from the reference
// curves (vp::ref_*), not from the library, because a broken one-time initialisation can stay wrong for the whole process.
#include <sys/mman.h>
#include <sys/wait.h>
struct ColdShared {
    int ok;            // run_schedule accepted the prefix
    int violated;      // oracle verdict
    int npoints;
    int preemptions;
    uint64_t outcome;
    char why[256];
    struct P {
        unsigned char nen, rse, chosen, en[4];
    } pts[20000];
};

template <class C>
static uint64_t cold_flat(const typename C::coord_t & c)
{
    std::vector<long double> lc;
    double sizes[8];
    constexpr size_t N = C::B::contravariant_input_t::dimensions;
    for (size_t k = 0; k < N; ++k) {
        lc.push_back(static_cast<long double>(c[k]));
        sizes[k] = static_cast<double>(C::EXT);
    }
    const std::string ln = C::name();
    if (ln.rfind("strided", 0) == 0) return ref_rowmajor(sizes, static_cast<int>(N), lc);
    if (ln.rfind("morton", 0) == 0) return ref_morton(static_cast<int>(N), lc);
    return ref_hilbert(sizes, lc);
}

template <class C>
static void explore_cold(Report & R, const std::string & pname, const Program & prog, int bound, uint64_t max_sched)
{
    static_assert(std::is_reference_v<typename covfie::field_view<typename C::B>::output_t>, "cold mode is for reference-returning (direct / nn) stacks");
    const std::string name = C::name() + "/" + pname + "/coldstart/bound" + std::to_string(bound);
    if (!g_filter.empty() && name.find(g_filter) == std::string::npos) return;
    const int T = static_cast<int>(prog.size());
    ColdShared * sh = static_cast<ColdShared *>(mmap(nullptr, sizeof(ColdShared), PROT_READ | PROT_WRITE, MAP_SHARED | MAP_ANONYMOUS, -1, 0));
    auto run_cold = [&](const std::vector<int> & prefix) -> bool {
        std::memset(sh, 0, sizeof(int) * 4);
        std::fflush(stdout);
        pid_t pid = fork();
        if (pid == 0) {
            alarm(10);
#ifdef VP_DEBUG_SEGV
            std::signal(SIGSEGV, [](int) { void * bt[40]; int n = backtrace(bt, 40); backtrace_symbols_fd(bt, n, 2); _exit(99); });
#endif
            auto field = C::make();
            // fill by FLAT index through the array view (no index computation of the layer under test)
            auto sv = C::storage_view(field);
            auto av = sv.get_backend();
            for (size_t i = 0; i < av.m_size; ++i) av.at(i)[0] = static_cast<float>(1 + (i * 7) % 13 + i);
            using view_t = covfie::field_view<typename C::B>;
            view_t shared(field);
            Sched sched(T);
            Sched::current = &sched;
            std::vector<std::vector<float>> res(T);
            sched.body = [&](int i) { run_program_thread<C>(shared, prog[i], res[i]); };
            Execution x;
            g_log.clear();
            g_explore_mode = true;
            vp::g_sched_active_mode = true;
            bool ok = run_schedule(sched, prefix, x);
            vp::g_sched_active_mode = false;
            g_explore_mode = false;
            sh->ok = ok ? 1 : 0;
            if (x.deadlock) {
                sh->violated = 1;
                std::snprintf(sh->why, sizeof sh->why, "deadlock: every remaining thread waits for a lock / initialisation another waiting thread holds");
            }
            sh->npoints = static_cast<int>(std::min<size_t>(x.points.size(), 20000));
            sh->preemptions = x.preemptions;
            for (int i = 0; i < sh->npoints; ++i) {
                sh->pts[i].nen = static_cast<unsigned char>(x.points[i].enabled.size());
                sh->pts[i].rse = x.points[i].running_still_enabled;
                sh->pts[i].chosen = static_cast<unsigned char>(x.points[i].chosen_index);
                for (size_t e = 0; e < x.points[i].enabled.size() && e < 4; ++e) sh->pts[i].en[e] = static_cast<unsigned char>(x.points[i].enabled[e]);
            }
            uint64_t h = 1469598103934665603ull;
            for (int t = 0; t < T; ++t) {
                size_t r = 0;
                for (const Action & a : prog[t]) {
                    if (a.write) continue;
                    const uint64_t flat = cold_flat<C>(C::reader_coord(a.k));
                    const float expect = static_cast<float>(1 + (flat * 7) % 13 + flat);
                    const float got = r < res[t].size() ? res[t][r] : -1.f;
                    h = fnv_of(got, h);
                    if (got != expect && !sh->violated) {
                        sh->violated = 1;
                        std::snprintf(sh->why, sizeof sh->why, "thread %d lookup %zu returned %g, the cell at that coordinate holds %g", t, r, got, expect);
                    }
                    ++r;
                }
            }
            sh->outcome = h;
#ifdef VP_BB_POINTS
            if (g_pc_contended.load()) {
                // two threads inside the hook at once would mean the scheduler let two threads run: a harness fault
                std::fprintf(stderr, "INTERNAL: scheduling-point cache was contended %ld times\n", g_pc_contended.load());
                _exit(98);
            }
#endif
            Sched::current = nullptr;
            _exit(0);
        }
        int status = 0;
        waitpid(pid, &status, 0);
        if (WIFSIGNALED(status) && WTERMSIG(status) == SIGALRM) {
            // a thread blocked in the kernel while holding the turn (a primitive this harness does not interpose): the
            // schedule cannot be driven any further - inconclusive, counted, never reported as a violation
            R.counters["coldstart_schedules_inconclusive_blocked"]++;
            sh->ok = 1;
            sh->violated = 0;
            sh->npoints = 0;
            return true;
        }
        if (!(WIFEXITED(status) && WEXITSTATUS(status) == 0)) {
            sh->ok = 1;
            sh->violated = 1;
            std::snprintf(sh->why, sizeof sh->why, "the child executing this schedule %s", WIFSIGNALED(status) ? (WTERMSIG(status) == SIGALRM ? "did not finish (deadlock / livelock)" : ("was killed by signal " + std::to_string(WTERMSIG(status))).c_str()) : ("exited with status " + std::to_string(WEXITSTATUS(status))).c_str());
            return true;
        }
        return sh->ok != 0;
    };
    std::set<uint64_t> outcomes;
    uint64_t schedules = 0, points = 0;
    bool stopped = false;
    const double t_start = now_s();
    std::vector<std::vector<int>> stack;
    stack.push_back({});
    while (!stack.empty()) {
        std::vector<int> prefix = std::move(stack.back());
        stack.pop_back();
        if (!run_cold(prefix)) {
            // nondeterminism this harness does not control; not a statement about the property: counted, config capped
            R.counters["configs_not_replay_deterministic"]++;
            stopped = true;
            break;
        }
        ++schedules;
        points += static_cast<uint64_t>(sh->npoints);
        outcomes.insert(sh->outcome);
        std::string order;
        for (int i = 0; i < sh->npoints; ++i) order += char('0' + sh->pts[i].en[sh->pts[i].chosen]);
        if (sh->violated) {
            // replay before report
            std::vector<int> full;
            for (int i = 0; i < sh->npoints; ++i) full.push_back(sh->pts[i].chosen);
            const std::string why = sh->why;
            const uint64_t o1 = sh->outcome;
            run_cold(full);
            if (!sh->violated || sh->outcome != o1) R.viol("unstable_replay:" + C::name(), "cold-start schedule does not reproduce its observations (first run: " + why + "; replay: " + (sh->violated ? sh->why : "no violation") + ")", name + "/schedule=" + order);
            else R.viol("schedule:" + C::name(), why + " (first use of the process; schedule " + order + ")", name + "/schedule=" + order);
            if (R.violations > 10) break;
            continue;
        }
        if (schedules >= max_sched || now_s() - t_start > g_budget_s) {
            stopped = true;
            break;
        }
        std::vector<int> choices, before(static_cast<size_t>(sh->npoints) + 1, 0);
        int pre = 0;
        for (int i = 0; i < sh->npoints; ++i) {
            choices.push_back(sh->pts[i].chosen);
            before[static_cast<size_t>(i)] = pre;
            if (sh->pts[i].rse && sh->pts[i].chosen != 0) ++pre;
        }
        // copy what is needed before the shared block is overwritten by the next child
        std::vector<ColdShared::P> pts(sh->pts, sh->pts + sh->npoints);
        for (size_t i = pts.size(); i-- > prefix.size();) {
            for (int alt = pts[i].nen - 1; alt >= 1; --alt) {
                int cost = before[i] + (pts[i].rse ? 1 : 0);
                if (bound >= 0 && cost > bound) continue;
                std::vector<int> np(choices.begin(), choices.begin() + static_cast<long>(i));
                np.push_back(alt);
                stack.push_back(std::move(np));
            }
        }
    }
    munmap(sh, sizeof(ColdShared));
    R.evaluations += schedules;
    R.states += schedules;
    R.transitions += points;
    R.traces += schedules;
    ++R.nontrivial;
    R.counters["coldstart_schedules"] += schedules;
    if (stopped) R.counters["configs_capped"]++;
    char buf[300];
    std::snprintf(buf, sizeof buf, "%s schedules=%llu points=%llu outcomes=%zu%s", name.c_str(), (unsigned long long)schedules, (unsigned long long)points, outcomes.size(), stopped ? " CAPPED" : "");
    R.sample(buf, 400);
}

template <class L, size_t N>
static void cold_configs(Report & R, int bound, uint64_t max_sched)
{
    Program two_diff = {{{false, 0, 0}}, {{false, 1, 0}}};
    Program late_reader = {{{false, 0, 0}}, {{false, 1, 0}}, {{false, 2, 0}}};
    explore_cold<Cfg<L, N, DIRECT>>(R, "2x1lookup", two_diff, bound, max_sched);
    explore_cold<Cfg<L, N, DIRECT>>(R, "3x1lookup", late_reader, bound < 0 ? bound : std::min(bound, 2), max_sched);
    explore_cold<Cfg<L, N, NN>>(R, "2x1lookup", two_diff, bound, max_sched);
}

// free-running cold start for ThreadSanitizer: the threads perform the very first lookups of the process
template <class C>
static void free_cold(Report & R, int T)
{
    auto field = C::make();
    auto sv = C::storage_view(field);
    auto av = sv.get_backend();
    for (size_t i = 0; i < av.m_size; ++i) av.at(i)[0] = static_cast<float>(1 + (i * 7) % 13 + i);
    using view_t = covfie::field_view<typename C::B>;
    view_t shared(field);
    std::atomic<int> ready{0};
    std::vector<int> bad(T, 0);
    std::vector<std::thread> th;
    for (int t = 0; t < T; ++t) {
        th.emplace_back([&, t] {
            ready.fetch_add(1);
            while (ready.load() < T) {}
            for (int k = 0; k < 6; ++k) {
                auto c = C::reader_coord((k + t) % 6);
                const uint64_t flat = cold_flat<C>(c);
                if (shared.at(c)[0] != static_cast<float>(1 + (flat * 7) % 13 + flat)) ++bad[t];
            }
        });
    }
    for (auto & x : th) x.join();
    ++R.evaluations;
    ++R.nontrivial;
    for (int t = 0; t < T; ++t)
        if (bad[t]) R.viol("free_cold:" + C::name(), "thread " + std::to_string(t) + " read a wrong cell during the first lookups of the process", C::name() + "/free_cold/T" + std::to_string(T));
}

// ------------------------------------------------------------------ free-running pass (ThreadSanitizer build)
template <class C>
static void free_run(Report & R, int T)
{
    auto field = C::make();
    C::reset(field);
    using view_t = covfie::field_view<typename C::B>;
    view_t shared(field);
    std::vector<float> expect;
    for (int k = 0; k < 6; ++k) expect.push_back(shared.at(C::reader_coord(k))[0]);
    std::vector<std::thread> th;
    std::vector<int> bad(T, 0);
    constexpr bool writable = std::is_reference_v<typename view_t::output_t>;
    for (int t = 0; t < T; ++t) {
        th.emplace_back([&, t] {
            view_t own(field);
            const view_t & v = (t % 2) ? own : shared;
            for (int rep = 0; rep < 200; ++rep) {
                for (int k = 0; k < 6; ++k)
                    if (v.at(C::reader_coord(k))[0] != expect[k]) ++bad[t];
                if constexpr (C::writes_through_inner_view) {
                    if (t < 3) {
                        view_t w = v;
                        w.backend().get_backend().at(C::writer_coord(t))[0] = static_cast<float>(rep);  // writer_coord(0..2) are distinct cells
                    }
                } else if constexpr (writable) {
                    if (t < C::n_writer_cells) v.at(C::writer_coord(t))[0] = static_cast<float>(rep);  // one distinct cell per writer thread
                }
            }
        });
    }
    for (auto & x : th) x.join();
    ++R.evaluations;
    ++R.nontrivial;
    for (int t = 0; t < T; ++t)
        if (bad[t]) R.viol("free:" + C::name(), "thread " + std::to_string(t) + " read a value different from the sequential one", C::name() + "/free/T" + std::to_string(T));
    // second phase: a field nobody has viewed yet (as after loading or conversion); every thread makes its own view
    for (int round = 0; round < 20; ++round) {
        C::reset(field);
        auto twin = C::never_viewed_twin(field);
        std::vector<std::thread> th2;
        std::vector<int> bad2(T, 0);
        std::atomic<int> ready{0};
        for (int t = 0; t < T; ++t) {
            th2.emplace_back([&, t] {
                ready.fetch_add(1);
                while (ready.load() < T) {}
                view_t own(twin);
                for (int k = 0; k < 6; ++k)
                    if (own.at(C::reader_coord(k))[0] != expect[k]) ++bad2[t];
            });
        }
        for (auto & x : th2) x.join();
        ++R.evaluations;
        for (int t = 0; t < T; ++t)
            if (bad2[t]) R.viol("free_unviewed:" + C::name(), "thread " + std::to_string(t) + " read a value different from the sequential one through its own view of a field not viewed before", C::name() + "/free_unviewed/T" + std::to_string(T));
    }
}
template <class L, size_t N>
static void free_interps(Report & R, int T)
{
    free_run<Cfg<L, N, DIRECT>>(R, T);
    free_run<Cfg<L, N, NN>>(R, T);
    free_run<Cfg<L, N, LINEAR>>(R, T);
    free_run<Cfg<L, N, CLAMPED>>(R, T);
    free_run<Cfg<L, N, AFFINE_NN>>(R, T);
    free_run<Cfg<L, N, BACKUP_ST>>(R, T);
    if constexpr (N == 3 && std::is_same_v<L, L_strided>) free_run<Cfg<L, 4, LINEAR>>(R, T);
}

int main(int argc, char ** argv)
{
    std::string mode = argc > 1 ? argv[1] : "explore";
    g_access_hook = hook;
    Report R(std::string("concurrent/") + VP_LAYER::name + "/" + mode);
    if (const char * oc = std::getenv("VP_ONLY_CASE")) {
        // case = "<config name>/schedule=<digits>": re-run that configuration only (full enumeration is cheap per config)
        std::string s = oc;
        size_t p = s.find("/schedule=");
        g_filter = p == std::string::npos ? s : s.substr(0, p);
        size_t b = g_filter.rfind("/bound");
        if (b != std::string::npos) g_filter = g_filter.substr(0, b);
    }
    if (const char * b = std::getenv("VP_CONFIG_BUDGET_S")) g_budget_s = std::atof(b);
    if (mode == "explore") {
        int bound = argc > 2 ? std::atoi(argv[2]) : 2;
        uint64_t max_sched = argc > 3 ? std::strtoull(argv[3], nullptr, 10) : 200000;
        bool thorough = argc > 4 && std::string(argv[4]) == "thorough";
        if (argc > 5) g_filter = argv[5];
        if constexpr (std::is_same_v<VP_LAYER, L_hilbert>) {
            all_interps<VP_LAYER, 2>(R, bound, max_sched, thorough);
        } else {
            all_interps<VP_LAYER, 1>(R, bound, max_sched, thorough);
            all_interps<VP_LAYER, 2>(R, bound, max_sched, thorough);
            all_interps<VP_LAYER, 3>(R, bound, max_sched, thorough);
        }
        R.counters["preemption_bound_for_large_programs"] = bound < 0 ? 999 : bound;
    } else if (mode == "explore_cold") {
        int bound = argc > 2 ? std::atoi(argv[2]) : 2;
        uint64_t max_sched = argc > 3 ? std::strtoull(argv[3], nullptr, 10) : 20000;
        if (argc > 5) g_filter = argv[5];
        if constexpr (std::is_same_v<VP_LAYER, L_hilbert>) {
            cold_configs<VP_LAYER, 2>(R, bound, max_sched);
        } else {
            cold_configs<VP_LAYER, 1>(R, bound, max_sched);
            cold_configs<VP_LAYER, 2>(R, bound, max_sched);
        }
        R.counters["coldstart_preemption_bound"] = bound;
    } else if (mode == "free_cold") {
        g_access_hook = nullptr;
        int T = argc > 2 ? std::atoi(argv[2]) : 4;
        if constexpr (std::is_same_v<VP_LAYER, L_hilbert>) {
            free_cold<Cfg<VP_LAYER, 2, DIRECT>>(R, T);
        } else {
            // one configuration per process: a static initialised by the first configuration would hide the next one's race
            std::string which = argc > 3 ? argv[3] : "N2";
            if (which == "N1") free_cold<Cfg<VP_LAYER, 1, DIRECT>>(R, T);
            else if (which == "N3") free_cold<Cfg<VP_LAYER, 3, DIRECT>>(R, T);
            else free_cold<Cfg<VP_LAYER, 2, NN>>(R, T);
        }
        R.counters["free_running_threads"] = T;
    } else if (mode == "explore_fn") {
        int bound = argc > 2 ? std::atoi(argv[2]) : 2;
        uint64_t max_sched = argc > 3 ? std::strtoull(argv[3], nullptr, 10) : 200000;
        g_fn_thorough = argc > 4 && std::string(argv[4]) == "thorough";
        if (argc > 5) g_filter = argv[5];
        if constexpr (std::is_same_v<VP_LAYER, L_hilbert>) {
            all_interps_fn<VP_LAYER, 2>(R, bound, max_sched);
        } else {
            all_interps_fn<VP_LAYER, 1>(R, bound, max_sched);
            all_interps_fn<VP_LAYER, 2>(R, bound, max_sched);
        }
        R.counters["fn_entry_preemption_bound"] = bound;
    } else {
        g_access_hook = nullptr;
        int T = argc > 2 ? std::atoi(argv[2]) : 4;
        if constexpr (std::is_same_v<VP_LAYER, L_hilbert>) {
            free_interps<VP_LAYER, 2>(R, T);
        } else {
            free_interps<VP_LAYER, 1>(R, T);
            free_interps<VP_LAYER, 2>(R, T);
            free_interps<VP_LAYER, 3>(R, T);
        }
        R.counters["free_running_threads"] = T;
    }
    R.emit();
    return 0;
}
