// C10 (clamp) and C11 (backup): every coordinate of the coordinate type, extremes and infinities included.
// Build: -DVP_N=<1..4>; usage: c10 <clamp|backup> <quick|thorough>
#include <cmath>
#include <cstdlib>
#include <limits>
#include <vp/layers.hpp>
#include <vp/probe.hpp>
#include <vp/report.hpp>
#include <vp/xplore.hpp>

#include <covfie/core/backend/transformer/backup.hpp>
#include <covfie/core/backend/transformer/clamp.hpp>
#include <covfie/core/backend/transformer/linear.hpp>

#ifndef VP_N
#define VP_N 2
#endif
using namespace vp;

static const long BOX[3][2] = {{0, 0}, {0, 2}, {1, 3}};

// box #3 is wide and has bounds that neither float nor (for 64-bit integers) double can represent, next to the type's extremes
template <class T>
static T box_lo(size_t b)
{
    if (b < 3) return static_cast<T>(BOX[b][0]);
    if constexpr (std::is_integral_v<T>) return sizeof(T) == 8 ? static_cast<T>(9007199254740993ll) : static_cast<T>(16777217);
    else return static_cast<T>(-16777217.0);
}
template <class T>
static T box_hi(size_t b)
{
    if (b < 3) return static_cast<T>(BOX[b][1]);
    if constexpr (std::is_integral_v<T>) return static_cast<T>(std::numeric_limits<T>::max() - 2);
    else return std::numeric_limits<T>::max() / 2;
}

template <class T>
static std::vector<T> axis_alphabet(T lo, T hi, bool reduced)
{
    std::vector<T> a;
    using L = std::numeric_limits<T>;
    if constexpr (std::is_integral_v<T>) {
        std::vector<long double> c = {(long double)L::min(), (long double)L::min() + 1, -1, 0, 1, (long double)lo - 1, (long double)lo, (long double)lo + 1,
                                      (long double)hi - 1, (long double)hi, (long double)hi + 1, (long double)L::max() - 1, (long double)L::max()};
        if (reduced) c = {(long double)L::min(), (long double)lo - 1, (long double)lo, (long double)hi, (long double)hi + 1, (long double)L::max()};
        for (auto v : c)
            if (v >= (long double)L::min() && v <= (long double)L::max()) a.push_back(static_cast<T>(v));
    } else {
        const T inf = L::infinity();
        T l = lo, h = hi;
        if (reduced) {
            a = {-inf, std::nextafter(l, -inf), l, static_cast<T>(-0.0), h, std::nextafter(h, inf), inf};
        } else {
            a = {-inf, -L::max(), static_cast<T>(-1), static_cast<T>(-0.0), static_cast<T>(0.0), L::denorm_min(), -L::denorm_min(), std::nextafter(l, -inf), l, std::nextafter(l, inf),
                 static_cast<T>(0.5) * (l + h), std::nextafter(h, -inf), h, std::nextafter(h, inf), L::max(), inf};
        }
    }
    std::sort(a.begin(), a.end());
    a.erase(std::unique(a.begin(), a.end()), a.end());  // note: -0.0 == 0.0 merges; re-add the negative zero explicitly
    if constexpr (!std::is_integral_v<T>) a.push_back(static_cast<T>(-0.0));
    return a;
}

template <class T>
static T ref_clamp(T v, T lo, T hi)
{
    return v < lo ? lo : (hi < v ? hi : v);
}

// ---------------------------------------------------------------- C10 a: clamp<identity>
template <size_t N, class T>
static void clamp_identity(Report & R, bool thorough)
{
    using Id = cb::identity<cv::vector_d<T, N>>;
    using Cl = cb::clamp<Id>;
    const std::string key = std::string("clamp_identity:N") + std::to_string(N) + ":" + tname<T>::v;
    std::vector<size_t> bi = {0, 1, 2, 3};
    for_each_product<N, size_t>(bi, [&](const std::array<size_t, N> & bsel) {
        typename Cl::configuration_t cfg;
        std::array<std::vector<T>, N> al;
        for (size_t k = 0; k < N; ++k) {
            cfg.min[k] = box_lo<T>(bsel[k]);
            cfg.max[k] = box_hi<T>(bsel[k]);
            al[k] = axis_alphabet<T>(box_lo<T>(bsel[k]), box_hi<T>(bsel[k]), (N >= 3 && !thorough));
        }
        covfie::field<Cl> f(covfie::make_parameter_pack(std::move(cfg), std::monostate{}));
        covfie::field_view<Cl> v(f);
        for_each_product_axes<N, T>(al, [&](const std::array<T, N> & x) {
            covfie::array::array<T, N> xc;
            for (size_t k = 0; k < N; ++k) xc[k] = x[k];
            auto got = v.at(xc);
            ++R.evaluations;
            for (size_t k = 0; k < N; ++k) {
                T ex = ref_clamp<T>(x[k], box_lo<T>(bsel[k]), box_hi<T>(bsel[k]));
                R.observe(fnv_of(got[k]));
                if (!(got[k] == ex)) {
                    char buf[200];
                    std::snprintf(buf, sizeof buf, "component %zu of the delegated coordinate is %.17Lg, clamp(%.17Lg,[%.20Lg,%.20Lg]) = %.17Lg", k, (long double)got[k], (long double)x[k], (long double)box_lo<T>(bsel[k]), (long double)box_hi<T>(bsel[k]), (long double)ex);
                    R.viol(key, buf, key + " box" + vec_str(bsel, N) + " x" + vec_str(x, N));
                }
            }
        });
        ++R.nontrivial;
    });
}

// ---------------------------------------------------------------- C10 b: clamp over storage (probe + real array)
static size_t g_idx, g_size, g_acc;
static void hook(const void *, size_t idx, size_t size)
{
    g_idx = idx;
    g_size = size;
    ++g_acc;
}

template <class L, size_t N, class I, class Arr>
static void clamp_storage(Report & R, const char * arrname, bool thorough)
{
    using In = cv::vector_d<I, N>;
    using St = typename L::template apply<In, Arr>;
    using Cl = cb::clamp<St>;
    const std::string key = std::string("clamp_storage:") + L::name + ":" + arrname + ":N" + std::to_string(N) + ":" + tname<I>::v;
    std::array<size_t, N> ext;
    ext.fill(4);
    const size_t len = L::template doc_len<N>(ext);
    std::vector<size_t> bi = {0, 1, 2};
    for_each_product<N, size_t>(bi, [&](const std::array<size_t, N> & bsel) {
        typename Cl::configuration_t cfg;
        std::array<std::vector<I>, N> al;
        for (size_t k = 0; k < N; ++k) {
            cfg.min[k] = static_cast<I>(BOX[bsel[k]][0]);
            cfg.max[k] = static_cast<I>(BOX[bsel[k]][1]);
            al[k] = axis_alphabet<I>(static_cast<I>(BOX[bsel[k]][0]), static_cast<I>(BOX[bsel[k]][1]), (N >= 3 && !thorough));
        }
        covfie::field<Cl> f(covfie::make_parameter_pack(std::move(cfg), typename St::configuration_t(to_cov<size_t, N>(ext)), typename Arr::configuration_t{len}));
        // fill through the inner storage view: value encodes the coordinate
        {
            typename St::non_owning_data_t sv(f.backend().get_backend());
            for_each_coord<N>(ext, [&](const std::array<size_t, N> & c) {
                size_t lin = 0;
                for (size_t k = 0; k < N; ++k) lin = lin * 4 + c[k];
                sv.at(to_cov<I, N>(c))[0] = static_cast<float>(lin + 1);
            });
        }
        covfie::field_view<Cl> v(f);
        g_access_hook = hook;
        for_each_product_axes<N, I>(al, [&](const std::array<I, N> & x) {
            covfie::array::array<I, N> xc;
            for (size_t k = 0; k < N; ++k) xc[k] = x[k];
            g_acc = 0;
            g_idx = 0;
            g_size = len;
            float got = v.at(xc)[0];
            ++R.evaluations;
            size_t lin = 0;
            for (size_t k = 0; k < N; ++k) lin = lin * 4 + static_cast<size_t>(ref_clamp<I>(x[k], static_cast<I>(BOX[bsel[k]][0]), static_cast<I>(BOX[bsel[k]][1])));
            R.observe(static_cast<uint64_t>(got));
            if (g_idx >= g_size) R.viol(key + ":oob", "storage index " + std::to_string(g_idx) + " outside the field's " + std::to_string(g_size) + " cells", key + " box" + vec_str(bsel, N) + " x" + vec_str(x, N));
            else if (got != static_cast<float>(lin + 1)) R.viol(key + ":value", "returned the value of cell #" + std::to_string(long(got) - 1) + ", clamped coordinate is cell #" + std::to_string(lin), key + " box" + vec_str(bsel, N) + " x" + vec_str(x, N));
        });
        g_access_hook = nullptr;
        ++R.nontrivial;
    });
}

// ---------------------------------------------------------------- C10 c: clamp above an interpolator
template <size_t N, class C>
static void clamp_over_linear(Report & R)
{
    using In = cv::vector_d<std::size_t, N>;
    using Ar = cb::array<cv::vector_d<float, 1>>;
    using St = cb::strided<In, Ar>;
    using Li = cb::linear<St, cv::vector_d<C, N>>;
    using Cl = cb::clamp<Li>;
    const std::string key = std::string("clamp_over_linear:N") + std::to_string(N) + ":" + tname<C>::v;
    std::array<size_t, N> ext;
    ext.fill(4);
    const size_t cells = product<N>(ext);
    covfie::field<St> src(covfie::make_parameter_pack(typename St::configuration_t(to_cov<size_t, N>(ext)), typename Ar::configuration_t{cells}));
    {
        covfie::field_view<St> sv(src);
        size_t lin = 0;
        for_each_coord<N>(ext, [&](const std::array<size_t, N> & c) { sv.at(to_cov<size_t, N>(c))[0] = static_cast<float>((lin * 37) % 11 + lin++); });
    }
    covfie::field<Li> lf(src);
    covfie::field_view<Li> lv(lf);
    // box upper bound strictly below ext-1 (the interpolator's own domain): [0, 2.75]
    typename Cl::configuration_t cfg;
    for (size_t k = 0; k < N; ++k) {
        cfg.min[k] = static_cast<C>(0);
        cfg.max[k] = static_cast<C>(2.75);
    }
    typename Cl::owning_data_t co(cfg, typename Li::owning_data_t(lf.backend()));
    covfie::field<Cl> f(covfie::make_parameter_pack(std::move(co)));
    covfie::field_view<Cl> v(f);
    const C inf = std::numeric_limits<C>::infinity();
    std::vector<C> al = {-inf, -std::numeric_limits<C>::max(), static_cast<C>(-1), static_cast<C>(-0.0), static_cast<C>(0), static_cast<C>(0.25), static_cast<C>(1), static_cast<C>(2.5), std::nextafter(static_cast<C>(2.75), -inf), static_cast<C>(2.75),
                         std::nextafter(static_cast<C>(2.75), inf), static_cast<C>(3), static_cast<C>(4), static_cast<C>(1e9), std::numeric_limits<C>::max(), inf};
    if (N >= 3) al = {-inf, static_cast<C>(-1), static_cast<C>(0.25), static_cast<C>(2.75), static_cast<C>(3), static_cast<C>(1e9), inf};
    for_each_product<N, C>(al, [&](const std::array<C, N> & x) {
        covfie::array::array<C, N> xc, cc;
        for (size_t k = 0; k < N; ++k) {
            xc[k] = x[k];
            cc[k] = ref_clamp<C>(x[k], static_cast<C>(0), static_cast<C>(2.75));
        }
        float got = v.at(xc)[0];
        float ex = lv.at(cc)[0];
        ++R.evaluations;
        R.observe(fnv_of(got));
        if (!(got == ex)) R.viol(key, "clamped field returned " + std::to_string(got) + ", the interpolated field at the clamped coordinate is " + std::to_string(ex), key + " x" + vec_str(x, N));
    });
    ++R.nontrivial;
}

// ---------------------------------------------------------------- C11: backup<probe_fn>
template <size_t N, size_t M, class T, class O>
static void backup_probe(Report & R, bool thorough)
{
    using Pf = probe_fn<cv::vector_d<T, N>, cv::vector_d<O, M>>;
    using Bk = cb::backup<Pf>;
    const std::string key = std::string("backup:N") + std::to_string(N) + ":M" + std::to_string(M) + ":" + tname<T>::v;
    std::vector<size_t> bi = {0, 1, 2, 3};
    for_each_product<N, size_t>(bi, [&](const std::array<size_t, N> & bsel) {
        typename Bk::configuration_t cfg;
        std::array<std::vector<T>, N> al;
        for (size_t k = 0; k < N; ++k) {
            cfg.min[k] = box_lo<T>(bsel[k]);
            cfg.max[k] = box_hi<T>(bsel[k]);
            al[k] = axis_alphabet<T>(box_lo<T>(bsel[k]), box_hi<T>(bsel[k]), (N >= 3 && !thorough));
        }
        for (size_t j = 0; j < M; ++j) cfg.default_value[j] = static_cast<O>(-7.5 - double(j));
        const long salt = 1 + long(bsel[0]);
        covfie::field<Bk> f(covfie::make_parameter_pack(std::move(cfg), typename Pf::configuration_t{salt}));
        covfie::field_view<Bk> v(f);
        for_each_product_axes<N, T>(al, [&](const std::array<T, N> & x) {
            covfie::array::array<T, N> xc;
            bool inside = true;
            for (size_t k = 0; k < N; ++k) {
                xc[k] = x[k];
                if (x[k] < box_lo<T>(bsel[k]) || x[k] > box_hi<T>(bsel[k])) inside = false;
            }
            const unsigned long before = g_fn_log.calls;
            auto got = v.at(xc);
            const unsigned long calls = g_fn_log.calls - before;
            ++R.evaluations;
            R.counters[inside ? "inside_box" : "outside_box"]++;
            const std::string cas = key + " box" + vec_str(bsel, N) + " x" + vec_str(x, N);
            if (!inside) {
                if (calls != 0) R.viol(key + ":queried", "backend was queried " + std::to_string(calls) + " time(s) for a coordinate outside the box", cas);
                for (size_t j = 0; j < M; ++j)
                    if (!(got[j] == static_cast<O>(-7.5 - double(j)))) R.viol(key + ":default", "component " + std::to_string(j) + " is " + std::to_string(got[j]) + " instead of the configured default", cas);
            } else {
                // at least one query is needed to return the backend's value; how many is the layer's business
                if (calls < 1) R.viol(key + ":calls", "backend was not queried for an in-box coordinate", cas);
                if (calls > 1) R.counters["in_box_lookups_with_several_backend_queries"]++;
                bool same = true;
                for (size_t k = 0; k < N; ++k)
                    if (!(g_fn_log.last[k] == static_cast<long double>(x[k]))) same = false;
                if (calls >= 1 && !same) R.viol(key + ":coordinate", "backend was queried at a different coordinate", cas);
                auto ex = Pf::value(xc, salt);
                for (size_t j = 0; j < M; ++j)
                    if (!(got[j] == ex[j])) R.viol(key + ":value", "component " + std::to_string(j) + " is " + std::to_string(got[j]) + ", the backend's value is " + std::to_string(ex[j]), cas);
            }
            for (size_t j = 0; j < M; ++j) R.observe(fnv_of(got[j]));
        });
        ++R.nontrivial;
    });
}

template <size_t N>
static void run_clamp(Report & R, bool thorough)
{
    clamp_identity<N, int>(R, thorough);
    clamp_identity<N, unsigned>(R, thorough);
    clamp_identity<N, std::size_t>(R, thorough);
    clamp_identity<N, long>(R, thorough);
    clamp_identity<N, float>(R, thorough);
    clamp_identity<N, double>(R, thorough);
    clamp_storage<L_strided, N, std::size_t, probe_array<cv::float1>>(R, "probe", thorough);
    clamp_storage<L_strided, N, int, probe_array<cv::float1>>(R, "probe", thorough);
    clamp_storage<L_strided, N, unsigned, probe_array<cv::float1>>(R, "probe", thorough);
    clamp_storage<L_morton_port, N, std::size_t, probe_array<cv::float1>>(R, "probe", thorough);
    clamp_storage<L_morton_port, N, int, probe_array<cv::float1>>(R, "probe", thorough);
    clamp_storage<L_strided, N, std::size_t, cb::array<cv::float1>>(R, "array", thorough);
    clamp_storage<L_strided, N, int, cb::array<cv::float1>>(R, "array", thorough);
    clamp_storage<L_morton_port, N, unsigned, cb::array<cv::float1>>(R, "array", thorough);
    if constexpr (N == 2) {
        clamp_storage<L_hilbert, N, std::size_t, probe_array<cv::float1>>(R, "probe", thorough);
        clamp_storage<L_hilbert, N, int, cb::array<cv::float1>>(R, "array", thorough);
    }
    clamp_over_linear<N, float>(R);
    clamp_over_linear<N, double>(R);
}

template <size_t N, size_t M>
static void run_backup_M(Report & R, bool thorough)
{
    backup_probe<N, M, int, float>(R, thorough);
    backup_probe<N, M, std::size_t, float>(R, thorough);
    backup_probe<N, M, float, float>(R, thorough);
    backup_probe<N, M, double, double>(R, thorough);
    backup_probe<N, M, long, double>(R, thorough);
    backup_probe<N, M, unsigned, double>(R, thorough);
    // coordinate types that do not convert losslessly to the output type (a range test performed on a converted
    // coordinate would misjudge values one ulp outside a bound)
    backup_probe<N, M, double, float>(R, thorough);
    backup_probe<N, M, float, int>(R, thorough);
}
template <size_t N>
static void run_backup(Report & R, bool thorough)
{
    run_backup_M<N, 1>(R, thorough);
    run_backup_M<N, 2>(R, thorough);
    run_backup_M<N, 3>(R, thorough);
    run_backup_M<N, 4>(R, thorough);
}

int main(int argc, char ** argv)
{
    std::string what = argc > 1 ? argv[1] : "clamp";
    bool thorough = argc > 2 && std::string(argv[2]) == "thorough";
    Report R(what + "/N" + std::to_string(VP_N));
    if (what == "clamp") {
#ifndef VP_ONLY_BACKUP
        run_clamp<VP_N>(R, thorough);
#endif
        R.sample("clamp<identity<int" + std::to_string(VP_N) + ">> boxes {(0,0),(0,2),(1,3)}^N x {INT_MIN,INT_MIN+1,-1,0,1,lo-1,lo,lo+1,hi-1,hi,hi+1,INT_MAX-1,INT_MAX}^N");
        R.sample("clamp<identity<double" + std::to_string(VP_N) + ">> x in {-inf,-DBL_MAX,-1,-0.0,0.0,+-denorm,lo-ulp,lo,lo+ulp,mid,hi-ulp,hi,hi+ulp,DBL_MAX,inf}^N");
    } else {
#ifndef VP_ONLY_CLAMP
        run_backup<VP_N>(R, thorough);
#endif
        R.sample("backup<probe_fn<float" + std::to_string(VP_N) + ",floatM>> box (1,3): x=1-ulp -> default, no query; x=1 -> one query at x");
    }
    R.emit();
    return 0;
}
