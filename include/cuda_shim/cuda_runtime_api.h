// Host-side shim of the small part of the CUDA runtime API that covfie's lib/cuda uses.
// "Device" memory is ordinary heap memory tagged in a registry; when built with AddressSanitizer it is poisoned for
// direct host access, so a host memcpy on a device pointer is reported, while cudaMemcpy un-poisons around its copy.
#pragma once
#include <cstddef>
#include <cstdlib>
#include <cstring>
#include <map>

#if defined(__SANITIZE_ADDRESS__)
#include <sanitizer/asan_interface.h>
#define VP_POISON(p, n) ASAN_POISON_MEMORY_REGION((p), (n))
#define VP_UNPOISON(p, n) ASAN_UNPOISON_MEMORY_REGION((p), (n))
#else
#define VP_POISON(p, n) ((void)0)
#define VP_UNPOISON(p, n) ((void)0)
#endif

#ifndef __host__
#define __host__
#endif
#ifndef __device__
#define __device__
#endif

enum cudaError_t { cudaSuccess = 0, cudaErrorInvalidValue = 1, cudaErrorMemoryAllocation = 2, cudaErrorInvalidDevicePointer = 17 };
enum cudaMemcpyKind { cudaMemcpyHostToHost = 0, cudaMemcpyHostToDevice = 1, cudaMemcpyDeviceToHost = 2, cudaMemcpyDeviceToDevice = 3, cudaMemcpyDefault = 4 };

namespace vp_cuda {
inline std::map<void *, std::size_t> & registry()
{
    static std::map<void *, std::size_t> r;
    return r;
}
inline bool is_device(const void * p, std::size_t n)
{
    auto & r = registry();
    auto it = r.upper_bound(const_cast<void *>(p));
    if (it == r.begin()) return false;
    --it;
    const char * b = static_cast<const char *>(it->first);
    return static_cast<const char *>(p) >= b && static_cast<const char *>(p) + n <= b + it->second;
}
inline long g_bad_calls = 0;
}

inline const char * cudaGetErrorString(cudaError_t e)
{
    switch (e) {
    case cudaSuccess: return "no error";
    case cudaErrorInvalidValue: return "invalid argument";
    case cudaErrorMemoryAllocation: return "out of memory";
    default: return "invalid device pointer";
    }
}
inline cudaError_t cudaMalloc(void ** p, std::size_t n)
{
    void * q = std::malloc(n ? n : 1);
    if (!q) return cudaErrorMemoryAllocation;
    std::memset(q, 0xCD, n);
    vp_cuda::registry()[q] = n;
    VP_POISON(q, n);
    *p = q;
    return cudaSuccess;
}
template <class T>
inline cudaError_t cudaMalloc(T ** p, std::size_t n)
{
    return cudaMalloc(reinterpret_cast<void **>(p), n);
}
inline cudaError_t cudaFree(void * p)
{
    if (!p) return cudaSuccess;
    auto it = vp_cuda::registry().find(p);
    if (it == vp_cuda::registry().end()) {
        ++vp_cuda::g_bad_calls;
        return cudaErrorInvalidDevicePointer;
    }
    VP_UNPOISON(p, it->second);
    vp_cuda::registry().erase(it);
    std::free(p);
    return cudaSuccess;
}
inline cudaError_t cudaMemcpy(void * dst, const void * src, std::size_t n, cudaMemcpyKind kind)
{
    const bool dd = vp_cuda::is_device(dst, n), sd = vp_cuda::is_device(src, n);
    bool ok = true;
    if (kind == cudaMemcpyHostToDevice) ok = dd && !sd;
    if (kind == cudaMemcpyDeviceToHost) ok = !dd && sd;
    if (kind == cudaMemcpyDeviceToDevice) ok = dd && sd;
    if (kind == cudaMemcpyHostToHost) ok = !dd && !sd;
    if (n == 0) ok = true;
    if (!ok) {
        ++vp_cuda::g_bad_calls;
        return cudaErrorInvalidValue;
    }
    if (dd) VP_UNPOISON(dst, n);
    if (sd) VP_UNPOISON(src, n);
    std::memcpy(dst, src, n);
    if (dd) VP_POISON(dst, n);
    if (sd) VP_POISON(src, n);
    return cudaSuccess;
}
