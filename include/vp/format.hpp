// Engine E7: an independent reader of covfie's on-disk format, written from the grammar
//
//   file   := MAGIC_HEADER 0xAB000000  layer  MAGIC_FOOTER 0xCB000000
//   layer  := MAGIC_HEADER tag  config-blob  inner  MAGIC_FOOTER tag+0x20000000        (layers with a footprint)
//          |  inner                                                                       (interpolators, shuffle, cast, dereference)
//   array  := MAGIC_HEADER 0xAB010000  u32 width in {4,8}  u64 count  count*M scalars of `width` bytes  MAGIC_FOOTER 0xCB010000
//   constant := hdr tag  M scalars  ftr ;  identity := hdr tag ftr
//
// It is a pushdown automaton over the byte stream, instantiated from a description of the READER's stack.
#pragma once
#include <cstdint>
#include <cstring>
#include <string>
#include <vector>

namespace vp {

static constexpr uint32_t FMT_MAGIC_HEADER = 0xC04F1EABu, FMT_MAGIC_FOOTER = 0xC04F1E70u, FMT_FIELD_TAG = 0xAB000000u;

struct FLayer {
    uint32_t tag;       // 0 = no footprint
    uint32_t cfg_bytes; // raw configuration bytes following the header (array: handled separately)
    uint32_t is_array;  // payload = width, count, scalars
    uint32_t m;         // array: scalars per cell
};

enum Role { R_MAGIC_HEADER, R_TAG_HEADER, R_CONFIG, R_WIDTH, R_COUNT, R_SCALARS, R_MAGIC_FOOTER, R_TAG_FOOTER };
struct FWord {
    size_t offset, size;
    Role role;
    int layer;  // -1 = the field's own envelope
};
struct FParse {
    bool ok = false;
    std::string error;
    std::vector<FWord> words;
    uint32_t width = 0;
    uint64_t count = 0;
    size_t scalars_offset = 0;
};

inline FParse format_parse(const std::string & s, const FLayer * layers, int nlayers)
{
    FParse p;
    size_t pos = 0;
    auto need = [&](size_t n) { return pos + n <= s.size(); };
    auto u32 = [&](size_t at) {
        uint32_t v;
        std::memcpy(&v, s.data() + at, 4);
        return v;
    };
    auto expect = [&](uint32_t want, Role role, int layer) -> bool {
        if (!need(4)) {
            p.error = "stream ends inside a header/footer word at offset " + std::to_string(pos);
            return false;
        }
        if (u32(pos) != want) {
            p.error = "word at offset " + std::to_string(pos) + " is not the expected header/footer/tag";
            return false;
        }
        p.words.push_back({pos, 4, role, layer});
        pos += 4;
        return true;
    };
    if (!expect(FMT_MAGIC_HEADER, R_MAGIC_HEADER, -1) || !expect(FMT_FIELD_TAG, R_TAG_HEADER, -1)) return p;
    std::vector<int> open;
    for (int i = 0; i < nlayers; ++i) {
        const FLayer & L = layers[i];
        if (!L.tag) continue;
        if (!expect(FMT_MAGIC_HEADER, R_MAGIC_HEADER, i) || !expect(L.tag, R_TAG_HEADER, i)) return p;
        open.push_back(i);
        if (L.is_array) {
            if (!need(4)) {
                p.error = "stream ends before the float-width word";
                return p;
            }
            p.width = u32(pos);
            if (p.width != 4 && p.width != 8) {
                p.error = "float width is neither 4 nor 8";
                return p;
            }
            p.words.push_back({pos, 4, R_WIDTH, i});
            pos += 4;
            if (!need(8)) {
                p.error = "stream ends inside the element count";
                return p;
            }
            std::memcpy(&p.count, s.data() + pos, 8);
            p.words.push_back({pos, 8, R_COUNT, i});
            pos += 8;
            unsigned __int128 bytes = static_cast<unsigned __int128>(p.count) * L.m * p.width;
            if (bytes > s.size() - pos) {
                p.error = "stream ends inside the scalars";
                return p;
            }
            p.scalars_offset = pos;
            p.words.push_back({pos, static_cast<size_t>(bytes), R_SCALARS, i});
            pos += static_cast<size_t>(bytes);
        } else if (L.cfg_bytes) {
            if (!need(L.cfg_bytes)) {
                p.error = "stream ends inside a configuration blob";
                return p;
            }
            p.words.push_back({pos, L.cfg_bytes, R_CONFIG, i});
            pos += L.cfg_bytes;
        }
    }
    while (!open.empty()) {
        int i = open.back();
        open.pop_back();
        if (!expect(FMT_MAGIC_FOOTER, R_MAGIC_FOOTER, i) || !expect(layers[i].tag + 0x20000000u, R_TAG_FOOTER, i)) return p;
    }
    if (!expect(FMT_MAGIC_FOOTER, R_MAGIC_FOOTER, -1) || !expect(FMT_FIELD_TAG + 0x20000000u, R_TAG_FOOTER, -1)) return p;
    if (pos != s.size()) {
        // trailing bytes are not part of the dump; the library stops reading here, so this still counts as accepted
    }
    p.ok = true;
    return p;
}

}  // namespace vp
