// Shared machinery of the binary-IO checks (C06, C07, C08): per-stack entry table, stored-bit-pattern alphabets,
// fault-injecting stream buffer (engine E6), software round-to-nearest-even narrowing.
#pragma once
#include <cmath>
#include <cstdint>
#include <cstdlib>
#include <cstring>
#include <functional>
#include <istream>
#include <sstream>
#include <streambuf>
#include <string>
#include <vector>
#include <vp/format.hpp>
#include <vp/report.hpp>
#include <vp/xplore.hpp>

#include <covfie/core/algebra/affine.hpp>
#include <covfie/core/field.hpp>

namespace vp {

// ------------------------------------------------------------------ bit patterns
template <class T>
struct Bits;
template <>
struct Bits<float> {
    using U = uint32_t;
    static std::vector<U> alphabet()
    {
        return {0x00000000u, 0x80000000u, 0x00000001u, 0x807fffffu, 0x00800000u, 0x3f800000u, 0xbf800000u, 0x3f800001u, 0x7f7fffffu, 0xff7fffffu,
                0x7f800000u, 0xff800000u, 0x7fc00000u, 0x7fc00001u, 0xffc12345u, 0x7f800001u, 0xffa00000u, 0x3dcccccdu};
    }
};
template <>
struct Bits<double> {
    using U = uint64_t;
    static std::vector<U> alphabet()
    {
        return {0x0000000000000000ull, 0x8000000000000000ull, 0x0000000000000001ull, 0x800fffffffffffffull, 0x0010000000000000ull, 0x3ff0000000000000ull, 0xbff0000000000000ull,
                0x3ff0000000000001ull, 0x7fefffffffffffffull, 0xffefffffffffffffull, 0x7ff0000000000000ull, 0xfff0000000000000ull, 0x7ff8000000000000ull, 0x7ff8000000000001ull,
                0xfff8123456789abcull, 0x7ff0000000000001ull, 0xfff4000000000000ull, 0x3fb999999999999aull};
    }
};
// finite values inside the range of float, chosen to exercise narrowing: exact ties between adjacent floats, one double-ulp either
// side of a tie, the float-subnormal range, +-FLT_MAX and values that round to it
template <class T>
struct Finite;
template <>
struct Finite<double> {
    static std::vector<double> alphabet()
    {
        const double tie1 = 1.0 + std::ldexp(1.0, -24), tie3 = 1.0 + 3 * std::ldexp(1.0, -24);
        const double fmax = 3.4028234663852886e38;
        return {0.0, -0.0, 1.0, -1.5, 0.1, 1.0 / 3.0, tie1, tie3, std::nextafter(tie1, 2.0), std::nextafter(tie1, 0.0), -tie3, std::nextafter(tie3, 2.0),
                std::ldexp(1.0, -149), 1.5 * std::ldexp(1.0, -149), std::ldexp(1.0, -150), std::nextafter(std::ldexp(1.0, -150), 1.0), std::nextafter(std::ldexp(1.0, -150), 0.0),
                -2.5 * std::ldexp(1.0, -149), 1e-40, std::ldexp(1.0, -126), std::ldexp(1.0, -126) - std::ldexp(1.0, -150), std::ldexp(1.0, -126) - std::ldexp(1.0, -149),
                fmax, -fmax, fmax + std::ldexp(1.0, 102), -(fmax + std::ldexp(1.0, 102)), 16777217.0, 0.3, 123456.789, -1e-30};
    }
};
template <>
struct Finite<float> {
    static std::vector<float> alphabet()
    {
        return {0.0f, -0.0f, 1.0f, -1.5f, 0.1f, 1.0f / 3.0f, 3.4028234663852886e38f, -3.4028234663852886e38f, 1.401298464324817e-45f, -1.401298464324817e-45f, 1.1754943508222875e-38f,
                1.1754942106924411e-38f, 1.00000011920928955f, 16777216.0f, 0.3f, 123456.789f, -1e-30f};
    }
};

template <class T>
inline void set_bits(T * p, typename Bits<T>::U u)
{
    std::memcpy(p, &u, sizeof(T));
}
template <class T>
inline typename Bits<T>::U get_bits(const T * p)
{
    typename Bits<T>::U u;
    std::memcpy(&u, p, sizeof(T));
    return u;
}

// software round-to-nearest-even double -> float (finite inputs within float's range incl. subnormals)
inline uint32_t narrow_rne(uint64_t d)
{
    const uint32_t sign = static_cast<uint32_t>(d >> 63) << 31;
    const int e = static_cast<int>((d >> 52) & 0x7ff);
    uint64_t man = d & 0xfffffffffffffull;
    if (e == 0x7ff) return sign | 0x7f800000u | (man ? 0x400000u | static_cast<uint32_t>(man >> 29) : 0u);  // inf / NaN (not used as an oracle)
    if (e == 0 && man == 0) return sign;
    // value = m * 2^(x) with m a 53-bit integer (implicit one unless subnormal double)
    uint64_t m = (e == 0) ? man : (man | (1ull << 52));
    int x = (e == 0 ? 1 : e) - 1075;  // value = m * 2^x
    // target: float normal has 24-bit significand, value = s * 2^(fe-150) with s in [2^23, 2^24); subnormal: s * 2^-149, s < 2^23
    int msb = 63 - __builtin_clzll(m);
    int fe = msb + x + 127;  // biased float exponent if normal
    int shift;               // number of low bits to drop from m
    if (fe >= 1) shift = msb - 23;
    else shift = (-149 - x);  // align to 2^-149
    uint64_t s;
    if (shift <= 0) {
        s = m << (-shift);
    } else if (shift > 63) {
        s = 0;  // far below half the smallest subnormal
    } else {
        uint64_t q = m >> shift, rem = m & ((1ull << shift) - 1), half = 1ull << (shift - 1);
        if (rem > half || (rem == half && (q & 1))) ++q;
        s = q;
    }
    if (fe >= 1) {
        if (s == (1ull << 24)) {
            s >>= 1;
            ++fe;
        }
        if (fe >= 255) return sign | 0x7f800000u;
        return sign | (static_cast<uint32_t>(fe) << 23) | (static_cast<uint32_t>(s) & 0x7fffffu);
    }
    // subnormal result (may round up into the smallest normal: s == 2^23 encodes exactly that)
    return sign | static_cast<uint32_t>(s);
}

// ------------------------------------------------------------------ fault-injecting stream buffer
class fault_streambuf : public std::streambuf
{
public:
    // serves `data`; after `ok_reads` successful xsgetn calls every further read delivers nothing
    fault_streambuf(const std::string & data, long ok_reads = -1)
        : m_data(data)
        , m_pos(0)
        , m_ok(ok_reads)
        , m_reads(0)
    {
    }
    long reads() const
    {
        return m_reads;
    }

protected:
    std::streamsize xsgetn(char * s, std::streamsize n) override
    {
        if (m_ok >= 0 && m_reads >= m_ok) return 0;
        ++m_reads;
        std::streamsize k = std::min<std::streamsize>(n, static_cast<std::streamsize>(m_data.size() - m_pos));
        std::memcpy(s, m_data.data() + m_pos, static_cast<size_t>(k));
        m_pos += static_cast<size_t>(k);
        return k;
    }
    int_type underflow() override
    {
        return traits_type::eof();
    }
    int_type uflow() override
    {
        if (m_ok >= 0 && m_reads >= m_ok) return traits_type::eof();
        if (m_pos >= m_data.size()) return traits_type::eof();
        return traits_type::to_int_type(m_data[m_pos++]);
    }

private:
    std::string m_data;
    size_t m_pos;
    long m_ok, m_reads;
};

// ------------------------------------------------------------------ per-stack entries (type-erased)
enum LoadOutcome { LO_THROW = 0, LO_RETURNED = 1, LO_BADALLOC = 2 };

struct IoEntry {
    std::string name, key;
    int nlayers = 0;
    const FLayer * fl = nullptr;
    int array_width = 0;  // 0: no array in the stack
    int array_m = 0;
    // dump of the stack built with configuration variant `var`; arrays filled by `pat`:
    //   pat < 0: every cell k gets alphabet[(k + (-pat)) % size]; pat >= 0: all cells = 1.0 except scalar #(pat / A) = alphabet[pat % A]
    std::function<std::string(int var, long pat)> dump;
    std::function<long()> n_scalars;                                     // stored scalars of variant 0
    std::function<LoadOutcome(std::streambuf *, std::string * redump, std::string * what)> load;  // loads into this stack's type
    std::function<void(Report &, bool thorough)> roundtrip;              // typed C06 oracle
};
// std::ios_base::iostate the caller has enabled exceptions for on the stream handed to the loader (0: the default mask)
inline int g_stream_exceptions = 0;
inline std::vector<IoEntry> & io_registry()
{
    static std::vector<IoEntry> r;
    return r;
}
struct IoReg {
    explicit IoReg(IoEntry e)
    {
        io_registry().push_back(std::move(e));
    }
};

// bitwise comparison of configuration values, field by field (struct padding is never compared)
template <class T>
inline bool bits_eq_scalar(const T & a, const T & b)
{
    return std::memcmp(&a, &b, sizeof(T)) == 0;
}
template <class T, std::size_t N>
inline bool cfg_bits_equal(const covfie::array::array<T, N> & a, const covfie::array::array<T, N> & b)
{
    for (std::size_t i = 0; i < N; ++i)
        if (!bits_eq_scalar(a[i], b[i])) return false;
    return true;
}
inline bool cfg_bits_equal(const std::monostate &, const std::monostate &)
{
    return true;
}
template <std::size_t N, class T, class I>
inline bool cfg_bits_equal(const covfie::algebra::affine<N, T, I> & a, const covfie::algebra::affine<N, T, I> & b)
{
    for (std::size_t i = 0; i < N; ++i)
        for (std::size_t j = 0; j < N + 1; ++j)
            if (!bits_eq_scalar(a(i, j), b(i, j))) return false;
    return true;
}
template <class C>
requires requires(const C & c) { c.min; c.max; c.default_value; }
inline bool cfg_bits_equal(const C & a, const C & b)
{
    return cfg_bits_equal(a.min, b.min) && cfg_bits_equal(a.max, b.max) && cfg_bits_equal(a.default_value, b.default_value);
}
template <class C>
requires(requires(const C & c) { c.min; c.max; } && !requires(const C & c) { c.default_value; })
inline bool cfg_bits_equal(const C & a, const C & b)
{
    return cfg_bits_equal(a.min, b.min) && cfg_bits_equal(a.max, b.max);
}

// the values a storage-order layer returns at every lattice coordinate of its extents, looked up through its view (at()):
// "stored values at every coordinate" as a user reads them, not the flat cells
template <class St>
inline std::vector<typename St::covariant_output_t::scalar_t> lattice_values(const typename St::owning_data_t & so)
{
    constexpr std::size_t N = St::contravariant_input_t::dimensions;
    constexpr std::size_t M = St::covariant_output_t::dimensions;
    using I = typename St::contravariant_input_t::scalar_t;
    std::vector<typename St::covariant_output_t::scalar_t> out;
    const auto sizes = so.get_configuration();
    std::array<size_t, N> ext;
    for (std::size_t k = 0; k < N; ++k) ext[k] = sizes[k];
    typename St::non_owning_data_t sv(so);
    for_each_coord<N>(ext, [&](const std::array<size_t, N> & c) {
        typename St::contravariant_input_t::vector_t cc;
        for (std::size_t k = 0; k < N; ++k) cc[k] = static_cast<I>(c[k]);
        auto && cell = sv.at(cc);
        for (std::size_t j = 0; j < M; ++j) out.push_back(cell[j]);
    });
    return out;
}

// S is a generated struct: B, T (array scalar or void), name, key, depth, fl(), make(var), cells(f), configs_equal(a, b)
template <class S>
inline void fill_pattern(std::vector<typename S::T *> & cs, long pat)
{
    using T = typename S::T;
    auto al = Bits<T>::alphabet();
    const long A = static_cast<long>(al.size());
    if (pat <= -1000) {
        auto fa = Finite<T>::alphabet();
        for (size_t k = 0; k < cs.size(); ++k) *cs[k] = fa[(k + static_cast<size_t>(-pat - 1000)) % fa.size()];
    } else if (pat < 0) {
        for (size_t k = 0; k < cs.size(); ++k) set_bits<T>(cs[k], al[(k + static_cast<size_t>(-pat)) % al.size()]);
    } else {
        for (auto * p : cs) *p = static_cast<T>(1);
        if (!cs.empty()) set_bits<T>(cs[static_cast<size_t>(pat / A) % cs.size()], al[static_cast<size_t>(pat % A)]);
    }
}

template <class S>
inline IoEntry make_entry()
{
    using B = typename S::B;
    IoEntry e;
    e.name = S::name;
    e.key = S::key;
    e.nlayers = S::depth;
    e.fl = S::fl();
    if constexpr (!std::is_void_v<typename S::T>) {
        e.array_width = sizeof(typename S::T);
        e.array_m = S::array_m;
    }
    e.dump = [](int var, long pat) {
        covfie::field<B> f = S::make(var);
        if constexpr (!std::is_void_v<typename S::T>) {
            auto cs = S::cells(f);
            fill_pattern<S>(cs, pat);
        }
        std::ostringstream o;
        f.dump(o);
        return o.str();
    };
    e.n_scalars = []() -> long {
        if constexpr (!std::is_void_v<typename S::T>) {
            covfie::field<B> f = S::make(0);
            return static_cast<long>(S::cells(f).size());
        } else {
            return 0;
        }
    };
    e.load = [](std::streambuf * sb, std::string * redump, std::string * what) {
        try {
            std::istream is(sb);
            if (g_stream_exceptions) is.exceptions(static_cast<std::ios_base::iostate>(g_stream_exceptions));
            covfie::field<B> g(is);
            if (redump) {
                std::ostringstream o;
                g.dump(o);
                *redump = o.str();
            }
            return LO_RETURNED;
        } catch (const std::bad_alloc & ex) {
            if (what) *what = std::string("bad_alloc: ") + ex.what();
            return LO_BADALLOC;
        } catch (const std::exception & ex) {
            if (what) *what = ex.what();
            return LO_THROW;
        }
    };
    e.roundtrip = [](Report & R, bool thorough) {
        const std::string key = std::string("roundtrip:") + S::key;
        // ordinary, special values, 1-cell extents, empty field, and (stacks with an array) a payload of several KiB,
        // larger than any buffer a loader is likely to read through
        // ... and Morton / Hilbert storage cut off right after the largest curve position the extents reach (variant 5)
        for (int var = 0; var < (std::is_void_v<typename S::T> ? 4 : 6); ++var) {
            covfie::field<B> f = S::make(var);
            long npat = 1;
            std::vector<long> pats = {-1, -2, -7};
            const bool light = std::getenv("VP_IO_LIGHT") != nullptr;  // one pattern per variant (runs under valgrind)
            if (light) pats = {-1};
            if constexpr (!std::is_void_v<typename S::T>) {
                auto cs0 = S::cells(f);
                const long A = static_cast<long>(Bits<typename S::T>::alphabet().size());
                long positions = static_cast<long>(cs0.size());
                if (!thorough && positions > 6) positions = 6;  // quick: the first six scalar positions
                if (var == 0 && !light)
                    for (long p = 0; p < positions * A; ++p) pats.push_back(p);
                npat = static_cast<long>(pats.size());
            } else {
                pats = {-1};
            }
            (void)npat;
            for (long pat : pats) {
                if constexpr (!std::is_void_v<typename S::T>) {
                    auto cs = S::cells(f);
                    fill_pattern<S>(cs, pat);
                }
                const std::string cas = std::string(S::name) + " var" + std::to_string(var) + " pat" + std::to_string(pat);
                std::ostringstream o;
                f.dump(o);
                const std::string D = o.str();
                ++R.evaluations;
                R.distinct.insert(fnv_str(D));
                ++R.transitions;
                FParse fp = format_parse(D, S::fl(), S::depth);
                if (!fp.ok) {
                    R.viol("grammar:" + std::string(S::key), "the dump does not follow the header/payload/footer grammar: " + fp.error, cas);
                    continue;
                }
                size_t consumed = fp.words.back().offset + fp.words.back().size;
                if (consumed != D.size()) R.viol("grammar:" + std::string(S::key), "the dump has " + std::to_string(D.size() - consumed) + " trailing byte(s) after the global footer", cas);
                std::istringstream is(D);
                try {
                    covfie::field<B> g(is);
                    ++R.transitions;
                    int which = -1;
                    if (!S::configs_equal(f, g, which)) R.viol(key, "layer " + std::to_string(which) + " of the reloaded field reports a configuration with different bits", cas);
                    if constexpr (!std::is_void_v<typename S::T>) {
                        auto a = S::cells(f), b = S::cells(g);
                        if (a.size() != b.size()) R.viol(key, "the reloaded field stores " + std::to_string(b.size()) + " scalars instead of " + std::to_string(a.size()), cas);
                        else
                            for (size_t k = 0; k < a.size(); ++k)
                                if (get_bits(a[k]) != get_bits(b[k])) {
                                    char buf[160];
                                    std::snprintf(buf, sizeof buf, "stored scalar #%zu changed its bits from %llx to %llx", k, (unsigned long long)get_bits(a[k]), (unsigned long long)get_bits(b[k]));
                                    R.viol(key, buf, cas);
                                    break;
                                }
                    }
                    if constexpr (S::has_lattice) {
                        // and as a user reads them: through the storage order's view at every lattice coordinate
                        auto la = S::lattice(f), lb = S::lattice(g);
                        ++R.transitions;
                        bool same = la.size() == lb.size();
                        for (size_t k = 0; same && k < la.size(); ++k) same = get_bits(&la[k]) == get_bits(&lb[k]);
                        if (!same) R.viol(key, "looked up through the storage order's view, the reloaded field differs from the original at a lattice coordinate (or has a different number of them)", cas);
                    }
                    std::ostringstream o2;
                    g.dump(o2);
                    ++R.transitions;
                    if (o2.str() != D) R.viol(key, "dumping the reloaded field does not reproduce the first dump byte for byte", cas);
                    if (static_cast<size_t>(is.tellg()) != D.size()) R.viol(key, "loading consumed " + std::to_string(static_cast<long>(is.tellg())) + " of " + std::to_string(D.size()) + " bytes", cas);
                } catch (const std::exception & ex) {
                    R.viol(key, std::string("loading a valid dump threw: ") + ex.what(), cas);
                }
                if (pat == -1) {
                    // the same dump embedded in a longer stream (other data before and behind it, as in a container file):
                    // a loader must start where the stream stands and stop behind its own footer
                    const std::string pre = "\x7f" "covfie-embedded\n", post = "TAIL\xab\x1e\x4f\xc0";
                    std::istringstream es(pre + D + post);
                    std::string head(pre.size(), '\0');
                    es.read(head.data(), static_cast<std::streamsize>(pre.size()));
                    try {
                        covfie::field<B> g(es);
                        ++R.transitions;
                        std::string rest(post.size(), '\0');
                        es.read(rest.data(), static_cast<std::streamsize>(post.size()));
                        if (es.gcount() != static_cast<std::streamsize>(post.size()) || rest != post) R.viol(key, "a dump embedded in a longer stream: the loader did not stop right behind its own footer", cas + " embedded");
                        std::ostringstream o3;
                        g.dump(o3);
                        if (o3.str() != D) R.viol(key, "a dump embedded in a longer stream reloads to a different field", cas + " embedded");
                    } catch (const std::exception & ex) {
                        R.viol(key, std::string("loading a valid dump embedded in a longer stream threw: ") + ex.what(), cas + " embedded");
                    }
                }
            }
        }
        ++R.counters["stacks"];
    };
    return e;
}

}  // namespace vp
