// Link-time interposition of the blocking primitives a correct library might legitimately use, so that waiting is
// visible to the cooperative scheduler (a thread that is pre-empted while holding a lock must not make the next
// thread block in the kernel while it holds the turn). Include in exactly one translation unit of a scheduler harness.
//   - static-initialisation guards  (__cxa_guard_acquire / release / abort)
//   - pthread_mutex_lock            (std::mutex, std::lock_guard, ...)
//   - pthread_once                  (std::call_once on older runtimes)
// Outside scheduled regions (free-running ThreadSanitizer runs, start-up code) they behave as ordinary spin-yield locks.
#pragma once
#include <atomic>
#include <cstdint>
#include <pthread.h>
#include <sched.h>
#include <vp/sched.hpp>

namespace vp {
inline bool g_sched_active_mode = false;  // set by the harness while schedules are being explored
inline void wait_visible()
{
    if (g_sched_active_mode && Sched::tl_active && !Sched::tl_busy && Sched::current) Sched::current->point_blocked();
    else sched_yield();
}
}  // namespace vp

extern "C" {
int __cxa_guard_acquire(uint64_t * g)
{
    auto * b = reinterpret_cast<std::atomic<unsigned char> *>(g);  // byte 0: initialised, byte 1: initialisation in progress
    if (b[0].load(std::memory_order_acquire) == 1) return 0;
    for (;;) {
        unsigned char expect = 0;
        if (b[1].compare_exchange_strong(expect, 1, std::memory_order_acq_rel)) {
            if (b[0].load(std::memory_order_acquire) == 1) {
                b[1].store(0, std::memory_order_release);
                return 0;
            }
            return 1;
        }
        vp::wait_visible();
        if (b[0].load(std::memory_order_acquire) == 1) return 0;
    }
}
void __cxa_guard_release(uint64_t * g)
{
    auto * b = reinterpret_cast<std::atomic<unsigned char> *>(g);
    b[0].store(1, std::memory_order_release);
    b[1].store(0, std::memory_order_release);
}
void __cxa_guard_abort(uint64_t * g)
{
    auto * b = reinterpret_cast<std::atomic<unsigned char> *>(g);
    b[1].store(0, std::memory_order_release);
}
int pthread_mutex_lock(pthread_mutex_t * m)
{
    for (;;) {
        int r = pthread_mutex_trylock(m);
        if (r != EBUSY) return r;
        vp::wait_visible();
    }
}
}
