// C17 helpers: field-wise comparison of configuration values, recursive rebuild from reported configurations.
#pragma once
#include <cstring>
#include <sstream>
#include <variant>
#include <vp/stackcheck.hpp>

#include <covfie/core/algebra/affine.hpp>

namespace vp {

template <class T, std::size_t N>
inline bool cfg_equal(const covfie::array::array<T, N> & a, const covfie::array::array<T, N> & b)
{
    for (std::size_t i = 0; i < N; ++i)
        if (!(a[i] == b[i])) return false;
    return true;
}
inline bool cfg_equal(const std::monostate &, const std::monostate &)
{
    return true;
}
template <std::size_t N, class T, class I>
inline bool cfg_equal(const covfie::algebra::affine<N, T, I> & a, const covfie::algebra::affine<N, T, I> & b)
{
    for (std::size_t i = 0; i < N; ++i)
        for (std::size_t j = 0; j < N + 1; ++j)
            if (!(a(i, j) == b(i, j))) return false;
    return true;
}
template <class C>
requires requires(const C & c) { c.min; c.max; c.default_value; }
inline bool cfg_equal(const C & a, const C & b)
{
    return cfg_equal(a.min, b.min) && cfg_equal(a.max, b.max) && cfg_equal(a.default_value, b.default_value);
}
template <class C>
requires(requires(const C & c) { c.min; c.max; } && !requires(const C & c) { c.default_value; })
inline bool cfg_equal(const C & a, const C & b)
{
    return cfg_equal(a.min, b.min) && cfg_equal(a.max, b.max);
}
template <class C>
requires requires(const C & c) { c.salt; }
inline bool cfg_equal(const C & a, const C & b)
{
    return a.salt == b.salt;
}

// bitwise variants (configuration values such as NaN, -0.0 have to come back as they went in)
template <class T>
inline bool same_bits(const T & a, const T & b)
{
    return std::memcmp(&a, &b, sizeof(T)) == 0;
}
template <class T, std::size_t N>
inline bool cfg_same_bits(const covfie::array::array<T, N> & a, const covfie::array::array<T, N> & b)
{
    for (std::size_t i = 0; i < N; ++i)
        if (!same_bits(a[i], b[i])) return false;
    return true;
}
inline bool cfg_same_bits(const std::monostate &, const std::monostate &)
{
    return true;
}
template <std::size_t N, class T, class I>
inline bool cfg_same_bits(const covfie::algebra::affine<N, T, I> & a, const covfie::algebra::affine<N, T, I> & b)
{
    for (std::size_t i = 0; i < N; ++i)
        for (std::size_t j = 0; j < N + 1; ++j)
            if (!same_bits(a(i, j), b(i, j))) return false;
    return true;
}
template <class C>
requires requires(const C & c) { c.min; c.max; c.default_value; }
inline bool cfg_same_bits(const C & a, const C & b)
{
    return cfg_same_bits(a.min, b.min) && cfg_same_bits(a.max, b.max) && cfg_same_bits(a.default_value, b.default_value);
}
template <class C>
requires(requires(const C & c) { c.min; c.max; } && !requires(const C & c) { c.default_value; })
inline bool cfg_same_bits(const C & a, const C & b)
{
    return cfg_same_bits(a.min, b.min) && cfg_same_bits(a.max, b.max);
}
template <class C>
requires requires(const C & c) { c.salt; }
inline bool cfg_same_bits(const C & a, const C & b)
{
    return a.salt == b.salt;
}

template <class B>
inline typename B::owning_data_t rebuild(const typename B::owning_data_t & o)
{
    if constexpr (B::is_initial) {
        return typename B::owning_data_t(o);  // the storage itself
    } else {
        return typename B::owning_data_t(o.get_configuration(), rebuild<typename B::backend_t>(o.get_backend()));
    }
}

template <class B>
inline void same_field(Report & R, const covfie::field<B> & a, const covfie::field<B> & b, const LDesc * desc, int depth, bool serialisable, const std::string & name, const std::string & key)
{
    using view_t = covfie::field_view<B>;
    using S = typename B::contravariant_input_t::scalar_t;
    constexpr size_t N = B::contravariant_input_t::dimensions;
    constexpr size_t M = B::covariant_output_t::dimensions;
    view_t va(a), vb(b);
    auto al = stack_alphabet<S>(N);
    uint64_t in_dom = 0;
    for_each_product<N, S>(al, [&](const std::array<S, N> & x) {
        std::vector<long double> lc(N);
        typename view_t::coordinate_t c;
        for (size_t k = 0; k < N; ++k) {
            lc[k] = static_cast<long double>(x[k]);
            c[k] = x[k];
        }
        if (!interp(desc, depth, 0, lc).in_domain) return;
        ++in_dom;
        auto ga = va.at(c);
        auto gb = vb.at(c);
        ++R.evaluations;
        for (size_t j = 0; j < M; ++j) {
            R.observe(fnv_of(static_cast<double>(ga[j])));
            if (!(ga[j] == gb[j])) {
                R.viol(key, "the field rebuilt from the reported configurations differs from the original at a coordinate  [" + name + "]", name + " x" + vec_str(x, N));
                return;
            }
        }
    });
    if (serialisable) {
        std::ostringstream oa, ob;
        a.dump(oa);
        b.dump(ob);
        ++R.counters["dumps_compared"];
        if (oa.str() != ob.str()) R.viol(key, "the rebuilt field dumps to different bytes  [" + name + "]", name);
    }
    if (in_dom) ++R.nontrivial;
}

}  // namespace vp
