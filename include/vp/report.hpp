// Reporting protocol shared by all harnesses.
//   VIOL {"key":..,"detail":..,"case":..}   one line per violation (capped)
//   STAT {...}                               counters, merged by the runner
#pragma once
#include <cinttypes>
#include <cstdint>
#include <cstdio>
#include <cstring>
#include <map>
#include <set>
#include <sstream>
#include <string>
#include <unordered_set>
#include <vector>

namespace vp {

inline uint64_t fnv(const void * p, size_t n, uint64_t h = 1469598103934665603ull)
{
    const unsigned char * b = static_cast<const unsigned char *>(p);
    for (size_t i = 0; i < n; ++i) {
        h ^= b[i];
        h *= 1099511628211ull;
    }
    return h;
}
template <typename T>
inline uint64_t fnv_of(const T & v, uint64_t h = 1469598103934665603ull)
{
    return fnv(&v, sizeof(T), h);
}
inline uint64_t fnv_str(const std::string & s, uint64_t h = 1469598103934665603ull)
{
    return fnv(s.data(), s.size(), h);
}

inline std::string jesc(const std::string & s)
{
    std::string o;
    for (char c : s) {
        if (c == '"' || c == '\\') {
            o += '\\';
            o += c;
        } else if (c == '\n') {
            o += "\\n";
        } else if (static_cast<unsigned char>(c) < 0x20) {
            o += ' ';
        } else {
            o += c;
        }
    }
    return o;
}

struct Report {
    std::string group;
    uint64_t evaluations = 0;
    uint64_t nontrivial = 0;  // distinct non-trivial cases (harness decides)
    uint64_t states = 0, transitions = 0, traces = 0;
    uint64_t violations = 0;
    uint64_t digest = 1469598103934665603ull;  // digest of all observations
    std::unordered_set<uint64_t> distinct;     // optional: distinct case digests
    std::vector<std::string> samples;
    std::map<std::string, uint64_t> counters;
    std::map<std::string, std::string> infos;
    unsigned viol_cap = 8;
    std::map<std::string, unsigned> per_key;

    explicit Report(std::string g = "")
        : group(std::move(g))
    {
    }

    void observe(uint64_t x)
    {
        digest = fnv_of(x, digest);
    }
    void sample(const std::string & s, size_t cap = 6)
    {
        if (samples.size() < cap) {
            samples.push_back(s);
        }
    }
    void viol(const std::string & key, const std::string & detail, const std::string & cas)
    {
        ++violations;
        unsigned & k = per_key[key];
        if (k++ < viol_cap) {
            std::printf(
                "VIOL {\"key\":\"%s\",\"detail\":\"%s\",\"case\":\"%s\"}\n",
                jesc(key).c_str(),
                jesc(detail).c_str(),
                jesc(cas).c_str()
            );
            std::fflush(stdout);
        }
    }
    void emit()
    {
        std::ostringstream o;
        o << "STAT {\"evaluations\":" << evaluations << ",\"distinct_nontrivial\":"
          << (distinct.empty() ? nontrivial : static_cast<uint64_t>(distinct.size()) + nontrivial)
          << ",\"states\":" << states << ",\"transitions\":" << transitions << ",\"traces\":" << traces
          << ",\"violations\":" << violations;
        for (auto & kv : counters) {
            o << ",\"" << jesc(kv.first) << "\":" << kv.second;
        }
        o << ",\"groups\":{\"" << jesc(group) << "\":{\"evaluations\":" << evaluations << ",\"digest\":\"" << std::hex
          << digest << std::dec << "\"";
        for (auto & kv : infos) {
            o << ",\"" << jesc(kv.first) << "\":\"" << jesc(kv.second) << "\"";
        }
        o << "}}";
        o << ",\"samples\":[";
        for (size_t i = 0; i < samples.size(); ++i) {
            o << (i ? "," : "") << "\"" << jesc(samples[i]) << "\"";
        }
        o << "]}";
        std::printf("%s\n", o.str().c_str());
        std::fflush(stdout);
    }
};

template <typename V>
inline std::string vec_str(const V & v, size_t n)
{
    std::ostringstream o;
    o << "(";
    for (size_t i = 0; i < n; ++i) {
        o << (i ? "," : "") << +v[i];
    }
    o << ")";
    return o.str();
}

}  // namespace vp
