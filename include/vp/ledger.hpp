// Allocation ledger (engine E8): replaces the global allocation functions of the program that includes it
// (include in exactly one translation unit). Every block carries a header with a magic word; blocks are
// quarantined instead of being returned to malloc, so a second delete or a delete of a foreign pointer is
// recognised by its header instead of corrupting the heap.
#pragma once
#include <cstdint>
#include <cstdio>
#include <cstdlib>
#include <new>

namespace vp {
struct LedgerHdr {
    uint64_t magic;
    uint64_t size;
};
static constexpr uint64_t LIVE_MAGIC = 0x11fe11fe11fe11feull, DEAD_MAGIC = 0xdeaddeaddeaddeadull;
inline long g_live = 0, g_errors = 0;
inline char g_last_error[160] = "";
inline void * g_quarantine[1 << 14];
inline unsigned g_qpos = 0;
inline long ledger_live() { return g_live; }
inline long ledger_errors() { return g_errors; }
inline const char * ledger_last_error() { return g_last_error; }
inline void * ledger_alloc(std::size_t n)
{
    LedgerHdr * h = static_cast<LedgerHdr *>(std::malloc(sizeof(LedgerHdr) + (n ? n : 1)));
    if (!h) throw std::bad_alloc();
    h->magic = LIVE_MAGIC;
    h->size = n;
    ++g_live;
    return h + 1;
}
inline void ledger_free(void * p)
{
    if (!p) return;
    LedgerHdr * h = static_cast<LedgerHdr *>(p) - 1;
    if (h->magic == DEAD_MAGIC) {
        ++g_errors;
        std::snprintf(g_last_error, sizeof g_last_error, "block of %llu bytes freed twice", (unsigned long long)h->size);
        return;
    }
    if (h->magic != LIVE_MAGIC) {
        ++g_errors;
        std::snprintf(g_last_error, sizeof g_last_error, "delete of a pointer that was not returned by new");
        return;
    }
    h->magic = DEAD_MAGIC;
    --g_live;
    void *& q = g_quarantine[g_qpos++ & ((1u << 14) - 1)];
    if (q) std::free(q);
    q = h;
}
}  // namespace vp

void * operator new(std::size_t n) { return vp::ledger_alloc(n); }
void * operator new[](std::size_t n) { return vp::ledger_alloc(n); }
void operator delete(void * p) noexcept { vp::ledger_free(p); }
void operator delete[](void * p) noexcept { vp::ledger_free(p); }
void operator delete(void * p, std::size_t) noexcept { vp::ledger_free(p); }
void operator delete[](void * p, std::size_t) noexcept { vp::ledger_free(p); }
