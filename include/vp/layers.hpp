// Layer tags so harnesses can be templated over the storage-order layer.
#pragma once
#include <covfie/core/backend/primitive/array.hpp>
#include <covfie/core/backend/primitive/constant.hpp>
#include <covfie/core/backend/primitive/identity.hpp>
#include <covfie/core/backend/transformer/hilbert.hpp>
#include <covfie/core/backend/transformer/morton.hpp>
#include <covfie/core/backend/transformer/strided.hpp>
#include <covfie/core/field.hpp>
#include <covfie/core/field_view.hpp>
#include <covfie/core/parameter_pack.hpp>
#include <covfie/core/utility/numeric.hpp>

namespace vp {
namespace cb = covfie::backend;
namespace cv = covfie::vector;

struct L_strided {
    static constexpr const char * name = "strided";
    template <class In, class St>
    using apply = cb::strided<In, St>;
    template <size_t N>
    static size_t doc_len(const std::array<size_t, N> & e)
    {
        size_t p = 1;
        for (auto x : e) p *= x;
        return p;
    }
};
template <size_t N>
inline size_t pow2_cube_len(const std::array<size_t, N> & e)
{
    size_t m = 0;
    for (auto x : e) m = x > m ? x : m;
    size_t s = 1;
    while (s < m) s *= 2;
    size_t p = 1;
    for (size_t k = 0; k < N; ++k) p *= s;
    return p;
}
struct L_morton_bmi {
    static constexpr const char * name = "morton_bmi2";
    template <class In, class St>
    using apply = cb::morton<In, St, true>;
    template <size_t N>
    static size_t doc_len(const std::array<size_t, N> & e)
    {
        return pow2_cube_len<N>(e);
    }
};
struct L_morton_port {
    static constexpr const char * name = "morton_portable";
    template <class In, class St>
    using apply = cb::morton<In, St, false>;
    template <size_t N>
    static size_t doc_len(const std::array<size_t, N> & e)
    {
        return pow2_cube_len<N>(e);
    }
};
struct L_hilbert {
    static constexpr const char * name = "hilbert";
    template <class In, class St>
    using apply = cb::hilbert<In, St>;
    template <size_t N>
    static size_t doc_len(const std::array<size_t, N> & e)
    {
        return pow2_cube_len<N>(e);
    }
};

template <class T>
struct tname;
template <>
struct tname<float> {
    static constexpr const char * v = "float";
};
template <>
struct tname<double> {
    static constexpr const char * v = "double";
};
template <>
struct tname<std::size_t> {
    static constexpr const char * v = "size_t";
};
template <>
struct tname<unsigned> {
    static constexpr const char * v = "unsigned";
};
template <>
struct tname<int> {
    static constexpr const char * v = "int";
};
template <>
struct tname<long> {
    static constexpr const char * v = "long";
};

template <class I, size_t N>
inline covfie::array::array<I, N> to_cov(const std::array<size_t, N> & a)
{
    covfie::array::array<I, N> r;
    for (size_t k = 0; k < N; ++k) r[k] = static_cast<I>(a[k]);
    return r;
}
}  // namespace vp
