// Small deterministic enumerators (engine E1).
#pragma once
#include <array>
#include <cstddef>
#include <cstdint>
#include <functional>
#include <vector>

namespace vp {

// Calls f(v) for every vector v in prod_k [lo, hi_k]  (odometer, last axis fastest).
template <size_t N, typename F>
inline void for_each_box(const std::array<size_t, N> & lo, const std::array<size_t, N> & hi, F && f)
{
    std::array<size_t, N> v = lo;
    for (size_t k = 0; k < N; ++k) {
        if (lo[k] > hi[k]) {
            return;
        }
    }
    for (;;) {
        f(v);
        size_t k = N;
        while (k > 0) {
            --k;
            if (v[k] < hi[k]) {
                ++v[k];
                break;
            }
            v[k] = lo[k];
            if (k == 0) {
                return;
            }
        }
    }
}

// every extent vector with every extent in lo..B
template <size_t N, typename F>
inline void for_each_extent(size_t lo, size_t B, F && f)
{
    std::array<size_t, N> l, h;
    l.fill(lo);
    h.fill(B);
    for_each_box<N>(l, h, f);
}

// every coordinate 0 <= c_k < ext_k
template <size_t N, typename F>
inline void for_each_coord(const std::array<size_t, N> & ext, F && f)
{
    std::array<size_t, N> l, h;
    l.fill(0);
    for (size_t k = 0; k < N; ++k) {
        if (ext[k] == 0) {
            return;
        }
        h[k] = ext[k] - 1;
    }
    for_each_box<N>(l, h, f);
}

// cartesian product of per-axis alphabets (all axes share one alphabet)
template <size_t N, typename T, typename F>
inline void for_each_product(const std::vector<T> & alpha, F && f)
{
    if (alpha.empty()) {
        return;
    }
    std::array<size_t, N> idx;
    idx.fill(0);
    std::array<T, N> v;
    for (;;) {
        for (size_t k = 0; k < N; ++k) {
            v[k] = alpha[idx[k]];
        }
        f(v);
        size_t k = N;
        while (k > 0) {
            --k;
            if (idx[k] + 1 < alpha.size()) {
                ++idx[k];
                break;
            }
            idx[k] = 0;
            if (k == 0) {
                return;
            }
        }
    }
}

// per-axis alphabets differ
template <size_t N, typename T, typename F>
inline void for_each_product_axes(const std::array<std::vector<T>, N> & alpha, F && f)
{
    for (size_t k = 0; k < N; ++k) {
        if (alpha[k].empty()) {
            return;
        }
    }
    std::array<size_t, N> idx;
    idx.fill(0);
    std::array<T, N> v;
    for (;;) {
        for (size_t k = 0; k < N; ++k) {
            v[k] = alpha[k][idx[k]];
        }
        f(v);
        size_t k = N;
        while (k > 0) {
            --k;
            if (idx[k] + 1 < alpha[k].size()) {
                ++idx[k];
                break;
            }
            idx[k] = 0;
            if (k == 0) {
                return;
            }
        }
    }
}

template <size_t N>
inline size_t product(const std::array<size_t, N> & e)
{
    size_t p = 1;
    for (size_t k = 0; k < N; ++k) {
        p *= e[k];
    }
    return p;
}

}  // namespace vp
