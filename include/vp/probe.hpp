// Probe backends (engine E2): user-defined primitive backends that satisfy
// covfie::concepts::field_backend and let the harness own the storage cells.
#pragma once
#include <cstddef>
#include <cstring>
#include <iostream>
#include <memory>
#include <stdexcept>
#include <utility>

#include <covfie/core/concepts.hpp>
#include <covfie/core/parameter_pack.hpp>
#include <covfie/core/utility/nd_size.hpp>
#include <covfie/core/vector.hpp>

namespace vp {

// Called before every storage access of a probe_array view.
//   base: buffer, idx: flat index asked for, size: number of cells
using access_hook_t = void (*)(const void * base, std::size_t idx, std::size_t size);
inline access_hook_t g_access_hook = nullptr;

template <typename _output_vector_t, typename _index_t = std::size_t>
struct probe_array {
    using this_t = probe_array<_output_vector_t, _index_t>;
    static constexpr bool is_initial = true;
    using contravariant_input_t = covfie::vector::scalar_d<covfie::vector::vector_d<_index_t, 1>>;
    using covariant_output_t = covfie::vector::array_reference_vector_d<_output_vector_t>;
    using vector_t = std::decay_t<typename covariant_output_t::vector_t>;
    using configuration_t = covfie::utility::nd_size<1>;
    static constexpr uint32_t IO_MAGIC_HEADER = 0xAB7E0000;

    struct owning_data_t {
        using parent_t = this_t;
        owning_data_t()
            : m_size(0)
            , m_ptr({})
        {
        }
        owning_data_t(owning_data_t &&) = default;
        owning_data_t & operator=(owning_data_t &&) = default;
        explicit owning_data_t(std::size_t n)
            : m_size(n)
            , m_ptr(std::make_unique<vector_t[]>(n))
        {
        }
        explicit owning_data_t(configuration_t conf)
            : owning_data_t(conf[0])
        {
        }
        explicit owning_data_t(covfie::parameter_pack<owning_data_t> && conf)
            : owning_data_t(std::move(conf.x))
        {
        }
        explicit owning_data_t(covfie::parameter_pack<configuration_t> && conf)
            : owning_data_t(conf.x[0])
        {
        }
        explicit owning_data_t(std::size_t size, std::unique_ptr<vector_t[]> && ptr)
            : m_size(size)
            , m_ptr(std::move(ptr))
        {
        }
        owning_data_t(const owning_data_t & o)
            : m_size(o.m_size)
            , m_ptr(std::make_unique<vector_t[]>(o.m_size))
        {
            if (m_size) {
                std::memcpy(m_ptr.get(), o.m_ptr.get(), m_size * sizeof(vector_t));
            }
        }
        owning_data_t & operator=(const owning_data_t & o)
        {
            if (this != &o) {
                owning_data_t t(o);
                *this = std::move(t);
            }
            return *this;
        }
        configuration_t get_configuration() const
        {
            return {m_size};
        }
        static owning_data_t read_binary(std::istream &)
        {
            throw std::logic_error("probe_array is not serialisable");
        }
        static void write_binary(std::ostream &, const owning_data_t &)
        {
            throw std::logic_error("probe_array is not serialisable");
        }
        std::size_t m_size;
        std::unique_ptr<vector_t[]> m_ptr;
    };

    struct non_owning_data_t {
        using parent_t = this_t;
        non_owning_data_t(const owning_data_t & o)
            : m_size(o.m_size)
            , m_ptr(o.m_ptr.get())
        {
        }
        typename covariant_output_t::vector_t at(typename contravariant_input_t::vector_t i) const
        {
            std::size_t ii = static_cast<std::size_t>(i);
            if (g_access_hook) {
                g_access_hook(m_ptr, ii, m_size);
            }
            if (ii >= m_size) {
                return sink();  // out of bounds is reported by the hook, never performed
            }
            return m_ptr[ii];
        }
        static vector_t & sink()
        {
            static thread_local vector_t s;
            return s;
        }
        std::size_t m_size;
        vector_t * m_ptr;
    };
};

// N -> M function backend: out[j] = salt + 4096*(j+1) + sum_k 16^k * c[k]
// (exact and injective for the small dyadic coordinates the harnesses use).
// Counts the queries it receives and remembers the last coordinate.
struct probe_fn_log {
    unsigned long calls = 0;
    long double last[8] = {0, 0, 0, 0, 0, 0, 0, 0};
};
inline probe_fn_log g_fn_log;

template <typename _input_vector_t, typename _output_vector_t>
struct probe_fn {
    using this_t = probe_fn<_input_vector_t, _output_vector_t>;
    static constexpr bool is_initial = true;
    using contravariant_input_t = covfie::vector::array_vector_d<_input_vector_t>;
    using covariant_output_t = covfie::vector::array_vector_d<_output_vector_t>;
    struct configuration_t {
        long salt;
    };
    static constexpr uint32_t IO_MAGIC_HEADER = 0xAB7E0001;

    template <typename C>
    static typename covariant_output_t::vector_t value(const C & c, long salt)
    {
        typename covariant_output_t::vector_t rv;
        for (std::size_t j = 0; j < covariant_output_t::dimensions; ++j) {
            long double a = static_cast<long double>(salt) + 4096.0L * static_cast<long double>(j + 1);
            long double w = 1;
            for (std::size_t k = 0; k < contravariant_input_t::dimensions; ++k) {
                a += w * static_cast<long double>(c[k]);
                w *= 16;
            }
            rv[j] = static_cast<typename covariant_output_t::scalar_t>(a);
        }
        return rv;
    }

    struct owning_data_t {
        using parent_t = this_t;
        owning_data_t()
            : m_salt(0)
        {
        }
        owning_data_t(const owning_data_t &) = default;
        owning_data_t(owning_data_t &&) = default;
        owning_data_t & operator=(const owning_data_t &) = default;
        owning_data_t & operator=(owning_data_t &&) = default;
        explicit owning_data_t(configuration_t c)
            : m_salt(c.salt)
        {
        }
        explicit owning_data_t(covfie::parameter_pack<configuration_t> && c)
            : m_salt(c.x.salt)
        {
        }
        explicit owning_data_t(covfie::parameter_pack<owning_data_t> && c)
            : m_salt(c.x.m_salt)
        {
        }
        configuration_t get_configuration() const
        {
            return {m_salt};
        }
        static owning_data_t read_binary(std::istream &)
        {
            throw std::logic_error("probe_fn is not serialisable");
        }
        static void write_binary(std::ostream &, const owning_data_t &)
        {
            throw std::logic_error("probe_fn is not serialisable");
        }
        long m_salt;
    };
    struct non_owning_data_t {
        using parent_t = this_t;
        non_owning_data_t(const owning_data_t & o)
            : m_salt(o.m_salt)
        {
        }
        typename covariant_output_t::vector_t at(typename contravariant_input_t::vector_t c) const
        {
            ++g_fn_log.calls;
            for (std::size_t k = 0; k < contravariant_input_t::dimensions; ++k) {
                g_fn_log.last[k] = static_cast<long double>(c[k]);
            }
            return value(c, m_salt);
        }
        long m_salt;
    };
};

}  // namespace vp
