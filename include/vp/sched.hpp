// Engine E5: cooperative scheduler over real pthreads + stateless explorer with a preemption bound.
//
// Exactly one thread is runnable at any time. Worker i runs only while turn == i; the explorer (main thread) runs
// while turn == MAIN. A worker hands control back at every scheduling point (vp::Sched::point(), called from the
// probe backend's access hook) and when its body ends. Hand-off is a futex word with a short spin.
// Workers are reused across executions (no thread creation per schedule).
#pragma once
#include <atomic>
#include <climits>
#include <cstdint>
#include <cstdio>
#include <functional>
#include <linux/futex.h>
#include <pthread.h>
#include <sched.h>
#include <sys/syscall.h>
#include <unistd.h>
#include <vector>

namespace vp {

class Sched
{
public:
    static constexpr int MAIN = -1;
    enum St { IDLE, READY, AT_POINT, BLOCKED, FINISHED };

    explicit Sched(int n)
        : m_n(n)
        , m_state(n, IDLE)
    {
        m_turn.store(MAIN);
        m_quit = false;
        for (int i = 0; i < n; ++i) {
            m_args.push_back({this, i});
        }
        m_threads.resize(n);
        m_fresh = fresh_threads;
        if (!m_fresh) spawn();
    }
    ~Sched()
    {
        if (m_fresh) return;  // fresh workers are joined at the end of their execution
        m_quit = true;
        for (int i = 0; i < m_n; ++i) {
            give(i);  // the worker sees m_quit and exits; join before the turn word is reused
            pthread_join(m_threads[i], nullptr);
        }
    }

    // With fresh threads every execution starts from newly created workers, so per-thread state of the code under
    // test (thread_local objects) is the same at the start of every execution and a recorded prefix replays exactly.
    // With reused workers such state would survive from one schedule into the next.
    static inline bool fresh_threads = true;

    // body(i) is the program of worker i for the next execution(s)
    std::function<void(int)> body;

    // ---- explorer side -------------------------------------------------
    void begin_execution()
    {
        for (int i = 0; i < m_n; ++i) {
            m_state[i] = READY;
        }
        if (m_fresh) spawn();
    }
    void end_execution()
    {
        if (!m_fresh) return;
        for (int i = 0; i < m_n; ++i) {
            // a worker that never left a blocking primitive (deadlock verdict) cannot be joined; it is left behind
            if (m_state[i] == FINISHED) pthread_join(m_threads[i], nullptr);
            else pthread_detach(m_threads[i]);
        }
    }
    bool enabled(int i) const
    {
        return m_state[i] == READY || m_state[i] == AT_POINT;
    }
    bool any_enabled() const
    {
        for (int i = 0; i < m_n; ++i) {
            if (enabled(i)) return true;
        }
        return false;
    }
    // lets worker i run until its next scheduling point or the end of its body
    void step(int i)
    {
        give(i);
        wait_turn(MAIN);
    }
    int size() const
    {
        return m_n;
    }

    // ---- worker side ---------------------------------------------------
    static thread_local int tl_id;
    static thread_local bool tl_active;  // inside a scheduled body (instrumentation hooks must stay quiet elsewhere)
    static thread_local bool tl_busy;    // inside point(): the thread may already have released the turn
    static Sched * current;
    void point()
    {
        int i = tl_id;
        if (i < 0) return;  // the explorer thread itself (sequential reference runs)
        tl_busy = true;      // instrumentation hooks stay quiet while the turn is being handed over
        m_state[i] = AT_POINT;
        give(MAIN);
        wait_turn(i);
        tl_busy = false;
    }

    // "make waiting visible": called from interposed blocking primitives (static-initialisation guards, mutexes, once
    // flags) when the resource is held by another thread. The caller is not enabled again until some other thread has
    // taken a step; if nobody else can run, the explorer reports a deadlock.
    void point_blocked()
    {
        int i = tl_id;
        if (i < 0) return;
        tl_busy = true;
        m_state[i] = BLOCKED;
        give(MAIN);
        wait_turn(i);
        tl_busy = false;
    }
    bool any_blocked() const
    {
        for (int i = 0; i < m_n; ++i) {
            if (m_state[i] == BLOCKED) return true;
        }
        return false;
    }
    void unblock_others(int stepped)
    {
        for (int i = 0; i < m_n; ++i) {
            if (i != stepped && m_state[i] == BLOCKED) m_state[i] = AT_POINT;
        }
    }

private:
    struct Arg {
        Sched * s;
        int id;
    };
    static void * trampoline(void * a)
    {
        Arg * arg = static_cast<Arg *>(a);
        arg->s->worker(arg->id);
        return nullptr;
    }
    void spawn()
    {
        for (int i = 0; i < m_n; ++i) {
            pthread_create(&m_threads[i], nullptr, &Sched::trampoline, &m_args[i]);
        }
    }
    void worker(int i)
    {
        tl_id = i;
        for (;;) {
            wait_turn(i);
            if (m_quit) {
                return;
            }
            tl_active = true;   // from here to the end of the body this thread holds the turn whenever it runs
            body(i);
            tl_active = false;
            m_state[i] = FINISHED;
            const bool fresh = m_fresh;
            give(MAIN);
            if (fresh) return;
        }
    }
    void give(int who)
    {
        m_turn.store(who, std::memory_order_seq_cst);
        syscall(SYS_futex, reinterpret_cast<int *>(&m_turn), FUTEX_WAKE_PRIVATE, INT_MAX, nullptr, nullptr, 0);
    }
    void wait_turn(int me)
    {
        // hand-offs are answered within a few microseconds when the other thread is on a core of its own: spin briefly,
        // then yield the core a number of times (keeps many explorer processes on one machine from starving each other),
        // then sleep on the futex
        for (int spin = 0; spin < 400; ++spin) {
            if (m_turn.load(std::memory_order_seq_cst) == me) return;
            __builtin_ia32_pause();
        }
        for (int y = 0; y < 60; ++y) {
            if (m_turn.load(std::memory_order_seq_cst) == me) return;
            sched_yield();
        }
        for (;;) {
            int cur = m_turn.load(std::memory_order_seq_cst);
            if (cur == me) return;
            syscall(SYS_futex, reinterpret_cast<int *>(&m_turn), FUTEX_WAIT_PRIVATE, cur, nullptr, nullptr, 0);
        }
    }

    int m_n;
    std::atomic<int> m_turn;
    std::vector<St> m_state;
    std::atomic<bool> m_quit;
    bool m_fresh = false;
    std::vector<Arg> m_args;
    std::vector<pthread_t> m_threads;
};
inline thread_local int Sched::tl_id = -1;
inline thread_local bool Sched::tl_active = false;
inline thread_local bool Sched::tl_busy = false;
inline Sched * Sched::current = nullptr;

// One completed execution: the decision points and what was chosen.
struct Execution {
    struct Point {
        std::vector<int> enabled;      // canonical order: running thread first if still enabled, then ascending ids
        bool running_still_enabled;
        int chosen_index;              // index into enabled
    };
    std::vector<Point> points;
    std::vector<int> order;            // thread id chosen at each point
    int preemptions = 0;
    bool diverged = false;             // a prefix choice was out of range; the execution was completed with choice 0
    bool deadlock = false;             // ended with threads blocked on each other (through interposed primitives)
};

// Runs one execution. prefix gives the choice index at the first |prefix| points (out of range = hard error);
// afterwards choice 0 (keep running / lowest id).
inline bool run_schedule(Sched & s, const std::vector<int> & prefix, Execution & x)
{
    x = Execution();
    s.begin_execution();
    int running = -1;
    size_t k = 0;
    while (s.any_enabled()) {
        Execution::Point p;
        p.running_still_enabled = running >= 0 && s.enabled(running);
        if (p.running_still_enabled) p.enabled.push_back(running);
        for (int i = 0; i < s.size(); ++i) {
            if (s.enabled(i) && !(p.running_still_enabled && i == running)) p.enabled.push_back(i);
        }
        int ci = 0;
        if (k < prefix.size()) {
            ci = prefix[k];
            if (ci < 0 || ci >= static_cast<int>(p.enabled.size())) {
                // divergence while replaying a prefix: the workers are run to completion (nobody is left inside a
                // body), the caller is told
                x.diverged = true;
                ci = 0;
            }
        }
        p.chosen_index = ci;
        int next = p.enabled[ci];
        if (p.running_still_enabled && next != running) ++x.preemptions;
        x.points.push_back(p);
        x.order.push_back(next);
        running = next;
        s.step(next);
        s.unblock_others(next);
        ++k;
    }
    x.deadlock = s.any_blocked();  // nobody enabled, somebody still waiting for a resource another waiter holds
    s.end_execution();
    return !x.diverged;
}

// Depth-first enumeration of all schedules with at most `bound` preemptions (bound < 0: unbounded).
// on_exec(x) is called once per complete execution; returns false to stop.
struct ExploreStats {
    uint64_t schedules = 0;
    uint64_t points = 0;
    uint64_t divergences = 0;
    int max_preemptions_seen = 0;
    bool stopped = false;
};
template <class F>
inline void explore(Sched & s, int bound, F && on_exec, ExploreStats & st, uint64_t max_schedules = ~0ull)
{
    std::vector<std::vector<int>> stack;
    stack.push_back({});
    while (!stack.empty()) {
        std::vector<int> prefix = std::move(stack.back());
        stack.pop_back();
        Execution x;
        if (!run_schedule(s, prefix, x)) {
            ++st.divergences;
            continue;
        }
        ++st.schedules;
        st.points += x.points.size();
        if (x.preemptions > st.max_preemptions_seen) st.max_preemptions_seen = x.preemptions;
        if (!on_exec(x) || st.schedules >= max_schedules) {
            st.stopped = true;
            return;
        }
        // alternatives at every point after the prefix
        int pre = 0;
        std::vector<int> choices;
        for (auto & p : x.points) choices.push_back(p.chosen_index);
        // preemptions before point i
        std::vector<int> before(x.points.size() + 1, 0);
        for (size_t i = 0; i < x.points.size(); ++i) {
            const auto & p = x.points[i];
            before[i] = pre;
            if (p.running_still_enabled && p.chosen_index != 0) ++pre;
        }
        for (size_t i = x.points.size(); i-- > prefix.size();) {
            const auto & p = x.points[i];
            for (int alt = static_cast<int>(p.enabled.size()) - 1; alt >= 1; --alt) {
                int cost = before[i] + (p.running_still_enabled ? 1 : 0);
                if (bound >= 0 && cost > bound) continue;
                std::vector<int> np(choices.begin(), choices.begin() + static_cast<long>(i));
                np.push_back(alt);
                stack.push_back(std::move(np));
            }
        }
    }
}

}  // namespace vp
