// Drives one generated stack: enumerates its coordinate alphabet, asks the reference interpreter, and - when the
// coordinate is inside the stack's domain - both at() overloads of the real field_view.
#pragma once
#include <cmath>
#include <utility>
#include <vp/interp.hpp>
#include <vp/report.hpp>
#include <vp/xplore.hpp>

#include <covfie/core/field.hpp>

namespace vp {

template <class T>
inline std::vector<T> stack_alphabet(size_t n)
{
    std::vector<T> a;
    if constexpr (std::is_floating_point_v<T>) {
        if (n <= 2) a = {T(-0.25), T(0), T(0.25), T(0.5), T(1), T(1.5), T(1.75), T(2), T(2.5), T(3), T(3.25)};
        // for double coordinates: exact dyadic values that single precision cannot hold (a narrowing anywhere on the
        // coordinate path becomes visible), one inside the usual grids and one large
        if (n <= 2 && sizeof(T) == 8) {
            a.push_back(static_cast<T>(1.0 + 9.313225746154785e-10));  // 1 + 2^-30
            a.push_back(static_cast<T>(16777217.0));                   // 2^24 + 1
        }
        else if (n == 3) a = {T(-0.25), T(0), T(0.5), T(1), T(1.75), T(2.5), T(3.25)};
        else a = {T(0), T(0.5), T(1.25), T(2), T(3.25)};
    } else {
        if (n <= 3) a = {T(0), T(1), T(2), T(3), T(4)};
        else a = {T(0), T(1), T(2), T(3)};
        if (n <= 2) a.push_back(static_cast<T>(16777217));  // 2^24 + 1: not representable in single precision
    }
    return a;
}

// fills a storage layer (over array / probe_array) with the interpreter's model function
template <class NonOwning, size_t N, size_t M, class I>
inline void fill_model(NonOwning sv, const double * sizes)
{
    std::array<size_t, N> ext;
    for (size_t k = 0; k < N; ++k) ext[k] = static_cast<size_t>(sizes[k]);
    for_each_coord<N>(ext, [&](const std::array<size_t, N> & c) {
        covfie::array::array<I, N> cc;
        std::vector<long double> lc(N);
        for (size_t k = 0; k < N; ++k) {
            cc[k] = static_cast<I>(c[k]);
            lc[k] = static_cast<long double>(c[k]);
        }
        auto & cell = sv.at(cc);
        for (size_t j = 0; j < M; ++j) cell[j] = static_cast<std::decay_t<decltype(cell[j])>>(model_value(sizes, static_cast<int>(N), lc, static_cast<int>(j)));
    });
}

template <class B, size_t... Is>
inline auto call_variadic(const covfie::field_view<B> & v, const typename covfie::field_view<B>::coordinate_t & c, std::index_sequence<Is...>)
{
    return v.at(c[Is]...);
}

template <class B>
inline void check_stack(Report & R, const covfie::field<B> & f, const LDesc * desc, int depth, const std::string & name, const std::string & key)
{
    using view_t = covfie::field_view<B>;
    using coord_t = typename view_t::coordinate_t;
    using S = typename B::contravariant_input_t::scalar_t;
    constexpr size_t N = B::contravariant_input_t::dimensions;
    constexpr size_t M = B::covariant_output_t::dimensions;
    view_t v(f);
    auto al = stack_alphabet<S>(N);
    if constexpr (std::is_floating_point_v<S>) {
        // the largest value below one half: c + 0.5 is not representable, so a "floor(c + 0.5)" style rounding picks the
        // wrong lattice point. Only for stacks that round to the nearest point and have no affine map (whose products
        // with this value would not be exact, and the interpreter is exact everywhere except interpolation)
        bool has_nn = false, has_affine = false;
        for (int i = 0; i < depth; ++i) {
            has_nn = has_nn || desc[i].kind == LK_NN;
            has_affine = has_affine || desc[i].kind == LK_AFFINE;
        }
        if (has_nn && !has_affine && N <= 2) al.push_back(std::nextafter(S(0.5), S(0)));
    }
    uint64_t in_dom = 0, total = 0;
    const double u = (desc[0].in_t == ST_FLOAT || desc[0].out_t == ST_FLOAT) ? 5.9604644775390625e-08 : 1.1102230246251565e-16;
    bool anyfloat = false;
    for (int i = 0; i < depth; ++i)
        if (desc[i].in_t == ST_FLOAT || desc[i].out_t == ST_FLOAT) anyfloat = true;
    const double uu = anyfloat ? 5.9604644775390625e-08 : u;
    for_each_product<N, S>(al, [&](const std::array<S, N> & x) {
        std::vector<long double> lc(N);
        coord_t c;
        for (size_t k = 0; k < N; ++k) {
            lc[k] = static_cast<long double>(x[k]);
            c[k] = x[k];
        }
        ++total;
        IResult ex = interp(desc, depth, 0, lc);
        ++R.transitions;  // one interpreted trace
        if (!ex.in_domain) return;
        ++in_dom;
        auto got = v.at(c);
        auto got2 = call_variadic<B>(v, c, std::make_index_sequence<N>{});
        ++R.evaluations;
        ++R.traces;
        for (size_t j = 0; j < M; ++j) {
            const long double g = static_cast<long double>(got[j]), g2 = static_cast<long double>(got2[j]);
            R.observe(fnv_of(static_cast<double>(g)));
            bool ok, ok2;
            if (ex.inexact) {
                const long double tol = 64.0L * uu * (ex.mag + 1.0L);
                ok = std::fabs(static_cast<double>(g - ex.v[j])) <= tol;
                ok2 = std::fabs(static_cast<double>(g2 - ex.v[j])) <= tol;
            } else {
                ok = g == ex.v[j];
                ok2 = g2 == ex.v[j];
            }
            if (!ok || !ok2) {
                char buf[256];
                std::snprintf(buf, sizeof buf, "component %zu: field_view::at gives %.10Lg (variadic overload %.10Lg), layer-by-layer composition gives %.10Lg", j, g, g2, ex.v[j]);
                R.viol(key, std::string(buf) + "  [" + name + "]", name + " x" + vec_str(x, N));
                break;
            }
        }
    });
    R.counters["coordinates_total"] += total;
    R.counters["coordinates_in_domain"] += in_dom;
    if (in_dom == 0) R.counters["stacks_with_empty_domain"]++;
    else ++R.nontrivial;
    ++R.states;
}

}  // namespace vp
