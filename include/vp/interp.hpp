// Reference interpreter (engine E3) for a runtime description of a layer stack. Written from the one-line
// definitions of the layers, independently of the library. Values and coordinates are long double; the alphabets used by
// the generated harnesses are dyadic rationals, so every operation except interpolation is exact.
#pragma once
#include <cmath>
#include <cstddef>
#include <cstdint>
#include <string>
#include <vector>

namespace vp {

enum LKind {
    LK_ARRAY,      // flat storage, only beneath a storage order (value comes from the model function)
    LK_CONSTANT,
    LK_IDENTITY,
    LK_PROBE_FN,
    LK_STRIDED,
    LK_MORTON,
    LK_HILBERT,
    LK_CLAMP,
    LK_BACKUP,
    LK_SHUFFLE,
    LK_DEREF,
    LK_CAST,
    LK_AFFINE,
    LK_NN,
    LK_LINEAR
};
enum SType { ST_FLOAT, ST_DOUBLE, ST_SIZE, ST_UNSIGNED, ST_INT, ST_LONG };

struct LDesc {
    int kind;
    int n, m;       // input / output dimensionality of THIS layer
    int in_t, out_t;
    double cfg[48];  // clamp: min[n] max[n]; backup: min[n] max[n] default[m]; affine: row-major n x (n+1);
                     // storage: sizes[n]; constant: value[m]; probe_fn: salt; shuffle: perm[n]
};

inline long double round_to(int t, long double v)
{
    switch (t) {
    case ST_FLOAT: return static_cast<long double>(static_cast<float>(v));
    case ST_DOUBLE: return static_cast<long double>(static_cast<double>(v));
    case ST_SIZE: return static_cast<long double>(static_cast<std::size_t>(v));
    case ST_UNSIGNED: return static_cast<long double>(static_cast<unsigned>(v));
    case ST_INT: return static_cast<long double>(static_cast<int>(v));
    default: return static_cast<long double>(static_cast<long>(v));
    }
}
inline bool st_real(int t)
{
    return t == ST_FLOAT || t == ST_DOUBLE;
}

// the function every generated array / probe_array is filled with
inline long double model_value(const double * sizes, int n, const std::vector<long double> & c, int j)
{
    long double lin = 0;
    for (int k = 0; k < n; ++k) lin = lin * sizes[k] + c[k];
    // not representable in float (30 fractional bits), so a layer that rounds stored doubles through a narrower type is
    // visible; but a dyadic rational that every floating-point unit - including valgrind's 64-bit emulation of long
    // double - computes exactly, so the filler and the interpreter agree in every build and under every tool
    const long idx = static_cast<long>(lin) + j;
    return 0.5L + 64.0L * j + lin + static_cast<long double>(1 + idx % 7) * 9.313225746154785e-10L /* 2^-30 */;
}

inline uint64_t ref_rowmajor(const double * sizes, int n, const std::vector<long double> & c)
{
    uint64_t s = 0;
    for (int k = 0; k < n; ++k) s = s * static_cast<uint64_t>(sizes[k]) + static_cast<uint64_t>(c[k]);
    return s;
}
inline uint64_t ref_morton(int n, const std::vector<long double> & c)
{
    uint64_t out = 0;
    for (unsigned b = 0; b < 64u / n; ++b)
        for (int k = 0; k < n; ++k) out |= ((static_cast<uint64_t>(c[k]) >> b) & 1u) << (b * n + k);
    return out;
}
inline uint64_t ref_hilbert(const double * sizes, const std::vector<long double> & c)
{
    // geometric definition on the least power-of-two square containing the extents: recursive quadrant walk
    uint64_t side = 1;
    while (side < sizes[0] || side < sizes[1]) side *= 2;
    uint64_t x = static_cast<uint64_t>(c[0]), y = static_cast<uint64_t>(c[1]), d = 0;
    for (uint64_t s = side / 2; s > 0; s /= 2) {
        uint64_t rx = (x & s) ? 1 : 0, ry = (y & s) ? 1 : 0;
        // quadrant order of the curve: (0,0) -> (0,1) -> (1,1) -> (1,0)
        uint64_t q = rx == 0 ? (ry == 0 ? 0 : 1) : (ry == 1 ? 2 : 3);
        d += s * s * q;
        // move into the quadrant's own frame
        if (ry == 0) {
            if (rx == 1) {
                x = side - 1 - x;
                y = side - 1 - y;
            }
            uint64_t t = x;
            x = y;
            y = t;
        }
    }
    return d;
}

struct IResult {
    bool in_domain = true;
    std::vector<long double> v;
    long double mag = 0;     // sum |w*v| through interpolation (for the tolerance)
    bool inexact = false;    // went through linear interpolation
};

inline IResult interp(const LDesc * d, int depth, int idx, const std::vector<long double> & c)
{
    const LDesc & L = d[idx];
    IResult r;
    switch (L.kind) {
    case LK_CONSTANT:
        for (int j = 0; j < L.m; ++j) r.v.push_back(round_to(L.out_t, L.cfg[j]));
        return r;
    case LK_IDENTITY:
        for (int j = 0; j < L.m; ++j) r.v.push_back(round_to(L.out_t, c[j]));
        return r;
    case LK_PROBE_FN:
        for (int j = 0; j < L.m; ++j) {
            long double a = L.cfg[0] + 4096.0L * (j + 1), w = 1;
            for (int k = 0; k < L.n; ++k) {
                a += w * c[k];
                w *= 16;
            }
            r.v.push_back(round_to(L.out_t, a));
        }
        return r;
    case LK_STRIDED:
    case LK_MORTON:
    case LK_HILBERT: {
        for (int k = 0; k < L.n; ++k)
            if (!(c[k] >= 0 && c[k] < L.cfg[k])) {
                r.in_domain = false;
                return r;
            }
        const LDesc & P = d[idx + 1];
        if (P.kind == LK_ARRAY) {
            for (int j = 0; j < L.m; ++j) r.v.push_back(round_to(L.out_t, model_value(L.cfg, L.n, c, j)));
            return r;
        }
        uint64_t flat = L.kind == LK_STRIDED ? ref_rowmajor(L.cfg, L.n, c) : (L.kind == LK_MORTON ? ref_morton(L.n, c) : ref_hilbert(L.cfg, c));
        return interp(d, depth, idx + 1, {static_cast<long double>(flat)});
    }
    case LK_CLAMP: {
        std::vector<long double> cc(c);
        for (int k = 0; k < L.n; ++k) {
            long double lo = L.cfg[k], hi = L.cfg[L.n + k];
            cc[k] = c[k] < lo ? lo : (c[k] > hi ? hi : c[k]);
        }
        return interp(d, depth, idx + 1, cc);
    }
    case LK_BACKUP: {
        for (int k = 0; k < L.n; ++k)
            if (c[k] < L.cfg[k] || c[k] > L.cfg[L.n + k]) {
                for (int j = 0; j < L.m; ++j) r.v.push_back(round_to(L.out_t, L.cfg[2 * L.n + j]));
                return r;
            }
        return interp(d, depth, idx + 1, c);
    }
    case LK_SHUFFLE: {
        std::vector<long double> cc(L.n);
        for (int k = 0; k < L.n; ++k) cc[k] = c[static_cast<int>(L.cfg[k])];
        return interp(d, depth, idx + 1, cc);
    }
    case LK_DEREF: return interp(d, depth, idx + 1, c);
    case LK_CAST: {
        r = interp(d, depth, idx + 1, c);
        for (auto & x : r.v) x = round_to(L.out_t, x);
        return r;
    }
    case LK_AFFINE: {
        std::vector<long double> cc(L.n);
        for (int i = 0; i < L.n; ++i) {
            long double s = 0;
            for (int k = 0; k < L.n; ++k) s += static_cast<long double>(L.cfg[i * (L.n + 1) + k]) * c[k];
            s += L.cfg[i * (L.n + 1) + L.n];
            cc[i] = round_to(L.in_t, s);
        }
        return interp(d, depth, idx + 1, cc);
    }
    case LK_NN: {
        std::vector<long double> cc(L.n);
        for (int k = 0; k < L.n; ++k) {
            // an exact tie has two closest lattice points and either is a correct answer (C04): such coordinates are
            // not put to the implementation by this interpreter
            if (std::fabs(static_cast<double>(c[k] - std::floor(c[k]) - 0.5L)) == 0.0) {
                r.in_domain = false;
                return r;
            }
            long double rr = std::nearbyintl(c[k]);
            if (rr < 0) {
                r.in_domain = false;  // negative lattice indices are outside every generated stack's domain
                return r;
            }
            cc[k] = rr == 0 ? 0.0L : rr;
        }
        return interp(d, depth, idx + 1, cc);
    }
    case LK_LINEAR: {
        std::vector<long double> base(L.n), fr(L.n);
        for (int k = 0; k < L.n; ++k) {
            if (!(c[k] >= 0)) {
                r.in_domain = false;
                return r;
            }
            base[k] = std::truncl(c[k]);
            fr[k] = c[k] - base[k];
        }
        r.v.assign(L.m, 0);
        r.inexact = true;
        for (unsigned nb = 0; nb < (1u << L.n); ++nb) {
            std::vector<long double> p(L.n);
            long double w = 1;
            for (int k = 0; k < L.n; ++k) {
                p[k] = base[k] + ((nb >> k) & 1u);
                w *= ((nb >> k) & 1u) ? fr[k] : (1 - fr[k]);
            }
            IResult s = interp(d, depth, idx + 1, p);
            if (!s.in_domain) {
                r.in_domain = false;
                return r;
            }
            for (int j = 0; j < L.m; ++j) {
                // the interpolator converts the fetched value to its coordinate precision
                long double vv = round_to(L.in_t, s.v[j]);
                r.v[j] += w * vv;
                r.mag += w * (vv < 0 ? -vv : vv);
            }
            r.mag += s.mag;
        }
        return r;
    }
    default: r.in_domain = false; return r;
    }
}

}  // namespace vp
