#!/usr/bin/env python3
"""Applies each mutant patch to a scratch git worktree of /repo (outside /repo and /verif), confirms that the repository's own
99 tests still pass with it, runs the relevant checks with VERIF_REPO pointing at the worktree and expects exit status 1.
usage: tools/mutation_audit.py [--tier quick] [--no-suite] [name ...]        (names from mutants/index.json)
"""
import json, os, shutil, subprocess, sys, time
V = os.path.dirname(os.path.dirname(os.path.abspath(__file__)))
SCR = "/tmp/vp_mut"


def sh(cmd, **kw):
    return subprocess.run(cmd, shell=isinstance(cmd, str), capture_output=True, text=True, **kw)


def suite(wt):
    b = os.path.join(wt, "_build")
    r = sh(["cmake", "-G", "Ninja", "-S", wt, "-B", b, "-DCOVFIE_BUILD_TESTS=ON", "-DCMAKE_BUILD_TYPE=RelWithDebInfo", "-DCMAKE_CXX_FLAGS=-Wno-error",
            "-DGTest_DIR=/root/miniconda/lib/cmake/GTest"])
    if r.returncode:
        return "configure failed: " + r.stderr[-300:]
    r = sh(["cmake", "--build", b, "-j", "16"])
    if r.returncode:
        return "suite does not build: " + (r.stdout + r.stderr)[-400:]
    out = []
    for t in ("tests/core/test_core", "tests/cpu/test_cpu"):
        r = sh([os.path.join(b, t)])
        tail = [l for l in r.stdout.splitlines() if "PASSED" in l or "FAILED" in l]
        out.append((r.returncode, tail[-1] if tail else r.stdout[-100:]))
    if any(rc for rc, _ in out):
        return "suite FAILS: " + "; ".join(t for _, t in out)
    return "suite passes (" + "; ".join(t.strip() for _, t in out) + ")"


def main():
    args = [a for a in sys.argv[1:] if not a.startswith("--")]
    tier = "quick"
    if "--tier" in sys.argv:
        tier = sys.argv[sys.argv.index("--tier") + 1]
        args = [a for a in args if a != tier]
    do_suite = "--no-suite" not in sys.argv
    idx = json.load(open(os.path.join(V, "mutants/index.json")))
    names = args or sorted(idx)
    results = {}
    os.makedirs(SCR, exist_ok=True)
    for name in names:
        m = idx[name]
        wt = os.path.join(SCR, name)
        sh(["git", "-C", "/repo", "worktree", "remove", "--force", wt])
        shutil.rmtree(wt, ignore_errors=True)
        r = sh(["git", "-C", "/repo", "worktree", "add", "--detach", wt, "HEAD"])
        if r.returncode:
            print(name, "worktree failed", r.stderr)
            continue
        try:
            patch = os.path.join(V, m["patch"])
            r = sh(["git", "-C", wt, "apply", "--whitespace=nowarn", patch])
            if r.returncode:
                results[name] = {"error": "patch does not apply: " + r.stderr[-300:]}
                print(name, results[name])
                continue
            res = {"suite": suite(wt) if do_suite else "not run", "checks": {}}
            for pid in m["properties"]:
                t0 = time.time()
                env = dict(os.environ, VERIF_REPO=wt)
                r = sh([sys.executable, os.path.join(V, "bin/check"), pid, "--tier", tier], env=env, cwd=V)
                first = [l for l in r.stdout.splitlines() if l.startswith("  key=")]
                res["checks"][pid] = {"exit": r.returncode, "caught": r.returncode == 1, "first": (first[0][:220] if first else r.stdout[-200:]), "wall_s": round(time.time() - t0, 1)}
            for pid in m.get("silent", []):
                t0 = time.time()
                env = dict(os.environ, VERIF_REPO=wt)
                r = sh([sys.executable, os.path.join(V, "bin/check"), pid, "--tier", tier], env=env, cwd=V)
                res["checks"][pid] = {"exit": r.returncode, "caught": r.returncode == 0, "expected": "silent", "first": r.stdout.strip().splitlines()[-1][:220] if r.stdout.strip() else "", "wall_s": round(time.time() - t0, 1)}
            results[name] = res
            ok = all(c["caught"] for c in res["checks"].values())
            print("%-32s %-7s %s | %s" % (name, ("SILENT" if m.get("silent") else "CAUGHT") if ok else ("ALARMED" if m.get("silent") else "MISSED"), res["suite"][:60], {p: c["exit"] for p, c in res["checks"].items()}), flush=True)
        finally:
            sh(["git", "-C", "/repo", "worktree", "remove", "--force", wt])
            shutil.rmtree(wt, ignore_errors=True)
            shutil.rmtree(os.path.join(V, "build", "alt_" + name), ignore_errors=True)
    sh(["git", "-C", "/repo", "worktree", "prune"])
    out = os.path.join(V, "mutants/audit_result.json")
    old = json.load(open(out)) if os.path.exists(out) else {}
    old.update(results)
    json.dump(old, open(out, "w"), indent=1, sort_keys=True)


if __name__ == "__main__":
    main()
