#!/usr/bin/env python3
"""Generates /verif/MANIFEST.json from the table below (single source of truth)."""
import json, os, sys
V = os.path.dirname(os.path.dirname(os.path.abspath(__file__)))

CHECKS = {}
def add(pid, category, text, note, technique, design_ref, engine):
    CHECKS[pid] = dict(category=category, text=text, note=note, technique=technique, design_ref=design_ref, engine=engine)

add("C01", "exploration",
    "Bounded-exhaustive exploration on the real templates: every extent vector up to B_N x every in-range coordinate x "
    "(layer, N, M, coordinate type, storage type); the probe backend turns 'touches only own storage' and 'no interference' "
    "into checkable facts (in-bounds + injective index map), the real array backend is run under ASan with an O(cells^2) "
    "overwrite/re-read pass. Exhaustive within the bound, which is where the corner cases (non-square, non-power-of-two, last cell) live.",
    "g++12/x86-64; extents above the bound unexplored; probe_array stands for any primitive storage backend",
    "bounded-exhaustive enumeration of extent vectors x coordinates on the implementation (explicit-state, probe backend + ASan)",
    "DESIGN.md 2/C01", "E1+E2")

add("C14", "exploration",
    "Exhaustive comparison of the positions returned by the real layers (over identity<size1>, public API) with independently written curve definitions: "
    "row-major formula for every extent vector/coordinate up to the bound plus large boundary extents; Morton bit interleave for every coordinate below 2^b per axis plus a closed boundary alphabet to the full 2^floor(64/N) width, BMI2 and portable; "
    "Hilbert bijection/origin/adjacency on every 2^k square, k<=10; under 4 build configurations whose observation digests must agree.",
    "x86-64 with BMI2; g++12; Morton coordinates outside the exhaustive width are covered only by the boundary alphabet",
    "bounded-exhaustive enumeration of coordinates against reference curves, on the implementation",
    "DESIGN.md 2/C14", "E1+E3")
add("C18", "exploration",
    "Every input of the 8- and 16-bit domains (all pairs for ipow at 8 bit), every 32-bit input of round_pow2 in the thorough tier, boundary alphabets at 64 bit, under -O0/-O2/UBSan builds; "
    "the sizing consequence is decided by the probe backend: for every extent vector up to the bound the converted Morton/Hilbert field's storage length exceeds every curve position looked up.",
    "inputs above 2^(w-1) are outside the domain; 64-bit domain covered by boundary values only",
    "exhaustive input enumeration (small widths) + boundary alphabets against a reference, on the implementation",
    "DESIGN.md 2/C18", "E1+E2")
add("C19", "exploration",
    "Every extent vector with extents 0..B for dimensionality 1..5 (size_t and int tuples) plus long-axis boxes; the callback's tuples are counted per cell: exactly once each, none outside; ASan/UBSan build and NDEBUG build.",
    "extents above the bound only through the long-axis family",
    "bounded-exhaustive enumeration of extent vectors with a visit-count oracle, on the implementation",
    "DESIGN.md 2/C19", "E1")
add("C20", "exploration",
    "One generated static_assert per sequence (sort) and per ordered pair (permutation predicate), expected values computed by an independent Python reference; the compiler evaluates the real metaprogram for every case. "
    "Exhaustive over all sequences up to the stated length/alphabet plus a deterministic set of long / SIZE_MAX-valued sequences.",
    "g++12 as evaluator; no random sequences",
    "exhaustive enumeration of compile-time programs (static_assert per case) against a reference",
    "DESIGN.md 2/C20", "E4")

add("C03", "exploration",
    "The interpolant is linear in the data, so the responses to a complete one-hot basis determine the weight every cell receives at a coordinate: every extent vector up to the bound x every basis field (+4 non-affine patterns, one with opposite-sign neighbours near the largest finite value) x a per-axis alphabet of lattice points, cell faces and the last cell, "
    "for N in 1..5 and M in 1..4 independently, float/double coordinates and storage, over strided/Morton/Hilbert and with a clamp beneath; binary128 reference with an operation-count error bound; exact equality at lattice points; range clause.",
    "dyadic coordinates only (weights exact); tolerance (2N+2^N+4)u; N=5 uses a cell-local basis at extent 3",
    "bounded-exhaustive enumeration (extents x data basis x coordinate alphabet) against a binary128 reference model, on the implementation",
    "DESIGN.md 2/C03", "E1+E3")
add("C04", "exploration",
    "Exhaustive over a boundary alphabet (every integer/half-integer of the small domain +-2ulp, exponent ladder to 2^30 / 2^61, largest half-integers of each type) and its N-fold products, float and double coordinates, observed through nearest_neighbour<identity<long^N>> and through array-backed strided/Morton/Hilbert fields; oracle 2|nc-c|<=1 in binary128.",
    "default rounding mode; NaN excluded; coordinates between alphabet points are not enumerated",
    "exhaustive enumeration of a boundary coordinate alphabet with an exact-arithmetic oracle, on the implementation",
    "DESIGN.md 2/C04", "E1+E3")
add("C09", "exploration",
    "Exact equality over every small-integer affine map and vector (all entries for N<=3, deviation-bounded for N=4), every product of up to 4 generator transforms compared with function composition (folded through a named variable, written with temporaries on the left as in a*b*c*d, and with an expiring right operand), the factories on a grid, plus an inexact ladder with an operation-count bound; float and double; layer and operator observed separately.",
    "small-integer alphabets make every operation exact; inexact bound (N+2)u",
    "bounded-exhaustive enumeration of matrices / operation sequences (products up to depth 4) against an integer reference model",
    "DESIGN.md 2/C09", "E1+E3")
add("C10", "exploration",
    "N-fold products of an extreme-value alphabet (type minima/maxima, infinities, signed zeros, values equal and adjacent to each bound) over every box combination, six coordinate types, N=1..4; the delegated coordinate is read back through clamp<identity>, storage safety through the probe backend (index in bounds) and the real array under ASan; clamp above and below an interpolator.",
    "NaN excluded; boxes from a 4-element family per axis (pinned, two small, one wide with bounds that float / double cannot represent next to the type extremes; storage-backed passes use the three small ones)",
    "exhaustive enumeration of a boundary coordinate alphabet x box configurations, probe backend + ASan as oracle",
    "DESIGN.md 2/C10", "E1+E2")
add("C11", "exploration",
    "Same alphabet/box products as C10 over backup<probe_fn<N,M>> for N, M in 1..4 independently and six type pairs; the probe counts queries and remembers the coordinate, so 'without touching the backend' and 'exactly the backend's value at that coordinate' are decided per case.",
    "NaN excluded; probe_fn stands for any backend",
    "exhaustive enumeration of a boundary coordinate alphabet x box configurations with a query-counting probe backend",
    "DESIGN.md 2/C11", "E1+E2")

add("C05", "model_checking",
    "Explicit exploration of the conversion graph on the real constructors: every ordered pair of layouts for every extent vector up to the bound (both the copying and the moving form), every conversion sequence up to length 3 from the source compared with the directly converted field, "
    "and whole-stack affine<I<L<array>>> conversions; oracles are extents, documented storage length, value at every lattice coordinate, byte-identical round trip, unchanged source, bit-identical affine configuration.",
    "size_t coordinates; CUDA only through C13's shim build; M in {1,3}",
    "explicit-state exploration of conversion sequences (states = layouts x contents, transitions = real conversions), all executed on the implementation",
    "DESIGN.md 2/C05", "E1+E3")
add("C12", "model_checking",
    "Explicit-state breadth-first search to fixpoint over operation histories (construct, write, copy/move construct, copy assign and move assign each incl. self-assignment, convert, dump+load, destroy) on a pool of 2-4 slots and up to four field types; states are histories replayed on fresh objects and merged by a canonical form that keeps everything the property can observe plus the provenance of each buffer (hidden state such as the true allocation size differs between fresh and converted fields); "
    "after every operation all live fields are compared with a plain array model (through a fresh view and through a view taken when the buffer was built), buffer aliasing is checked directly, and an allocation ledger / ASan+LSan judge leaks, double frees and use after free; an unmerged run of all short histories cross-checks the canonicalisation.",
    "small extents (<= 2 cells) and values 0..2; slots interchangeable; moved-from fields only assigned to or destroyed",
    "explicit-state BFS over operation histories with canonical-state de-duplication, every transition executed on the implementation against a reference model",
    "DESIGN.md 2/C12", "E1+E3+E8")

add("C16", "model_checking",
    "Stateless model checking of the real templates under a controlled scheduler: real pthreads, exactly one runnable, scheduling point at every storage access (probe backend hook) plus each thread's tail; all interleavings of the 2-thread programs and all interleavings with at most 2 (quick) / 3 (thorough) preemptions of the 3-thread programs, "
    "for every storage order x {direct, nearest, linear, clamp, affine over nearest, out-of-range default} x N in 1..3, shared and per-thread views (also per-thread views of a field no view was ever made of - the state after loading or conversion), readers and a writer on disjoint cells; every execution runs on freshly created worker threads. Each schedule is compared with the sequential run (results, final storage) and scanned for conflicting accesses; failing schedules are replayed twice. "
    "Two further explorations refine the grain without source hooks: function entries as scheduling points (-finstrument-functions) and, for first-use state, every schedule in a freshly forked child with a scheduling point at every basic block of covfie code (-fsanitize-coverage=trace-pc). Blocking primitives a correct library might use (static-init guards, pthread mutexes) are interposed so that waiting is visible to the scheduler. "
    "Free-running ThreadSanitizer passes (warm and cold start, T up to 16), an object-file inventory of writable static data in covfie::, and a Spin model of the scheduler protocol itself complete it.",
    "sequentially consistent hand-off; T<=3 under the scheduler; configurations that exceed their wall-clock budget, or whose recorded prefixes stop replaying because the code under test keeps process-wide state across executions, are reported as capped (never as violations); TSan pass is a detector, not an enumeration",
    "preemption-bounded exhaustive schedule enumeration of the implementation under a hooked cooperative scheduler (CHESS-style), plus TSan free run",
    "DESIGN.md 2/C16", "E2+E5")

add("C13", "model_checking",
    "Exhaustive exploration of the program space 'stack x API operation': the layer grammar is enumerated as a state space (states = well-kinded stacks up to the depth bound; quick = pairwise adjacency cover plus every stack to depth 3 for two (N,M), thorough = every stack to depth 4 for all 16 (N,M) and depth 5 for five), "
    "and for each state (after a sizeof pre-pass on the tree under test removes stacks the library itself declares too large) the whole API script is type-checked by the real compiler with function bodies instantiated; the ill-kinded catalogue must be rejected with the layer's own diagnostic while its twin compiles; cuda_device_array is checked under a header shim of the CUDA runtime.",
    "g++12 as type checker; default construction and conversions the library never offered are not demanded; type parameters rotated rather than multiplied",
    "exhaustive enumeration of the stack grammar (bounded depth) x API operations, each compiled against the implementation",
    "DESIGN.md 2/C13", "E4")

add("C02", "model_checking",
    "Conformance checking of the implementation against an executable reference model of the layer semantics: stacks are enumerated from the grammar (pairwise adjacency cover for all 16 (N,M); thorough: every stack to depth 4 for all 16 (N,M), 30 966 stacks), each with a runtime description that a "
    "reference interpreter evaluates layer by layer; for every coordinate of a dyadic alphabet the interpreter's trace (including the decision whether the coordinate is in the stack's domain) is replayed on the real field_view through both at() overloads and must agree exactly "
    "(operation-count tolerance through linear). Innermost backends are independent models (probe function, constant, identity, arrays filled from the model function); the cover prefers coordinate-sensitive innermost backends and the alphabets contain values single precision cannot hold.",
    "dyadic alphabets (exactness); negative lattice indices treated as out of domain; one configuration assignment per stack",
    "explicit enumeration of stacks x coordinate alphabets; reference-model traces replayed against the implementation (model conformance)",
    "DESIGN.md 2/C02", "E3+E4")
add("C17", "exploration",
    "For every generated stack (same grammar cover as C02 plus helper stacks of depth 1..10) built through the positional parameter-pack helper with pairwise distinct configuration values: the configuration reported after i get_backend() steps equals the i-th argument field by field, "
    "and a field rebuilt recursively from the reported configurations and storage equals the original at every in-domain coordinate and in its dump bytes; a second assignment with extreme values in every blob (bounds beyond the extents beneath, reversed boxes, type extremes, -0.0, infinities, NaN) is read back bit for bit, and so is an empty field (first extent 0).",
    "three configuration assignments per stack (pairwise distinct ordinary values with lookups; extreme / special values and an empty field read back bit for bit without lookups); rebuilt field compared on the C02 alphabet",
    "bounded-exhaustive enumeration of stacks (grammar cover + depth 1..10 helper chains) with read-back / rebuild oracle on the implementation",
    "DESIGN.md 2/C17", "E3+E4")
add("C06", "model_checking",
    "States are distinct byte streams: for every stack of the serialisable catalogue x configuration variants (ordinary, special values in every blob, 1-cell extents, empty field, a payload of several KiB, Morton/Hilbert storage cut off after the largest reachable curve position) x stored bit patterns (rotations and every scalar position in turn) the real dump is produced, dissected by an independent format automaton, "
    "loaded by the real reader and compared typed: every layer's configuration bit-identical, every stored scalar bit-identical (as flat cells and as looked up through the storage order's view at every lattice coordinate), re-dump byte-identical, exact consumption; two builds.",
    "little-endian x86-64; catalogue = adjacency cover (every layer and adjacency), not every stack",
    "exhaustive enumeration of (stack, configuration variant, bit pattern, position) with a format automaton as model; every transition (dump, load, re-dump) run on the implementation",
    "DESIGN.md 2/C06", "E4+E7")
add("C07", "model_checking",
    "The format automaton is the model; conformance runs in both directions: every implementation dump is accepted by it (C06), and every ordered pair of catalogue stacks with identical on-disk footprint (differing in interpolator, coordinate precision, footprint-free wrappers and/or float width) "
    "is exercised writer->reader over a narrowing-critical finite alphabet (small fields, a several-KiB variant, 1-cell extents, tight curve storage) with a software round-to-nearest-even oracle; 410 committed golden files pin the bytes across revisions (load, re-dump, rebuild-from-recipe == golden).",
    "golden files were written by the pinned revision plus its fix: commits; finite values only",
    "exhaustive pair enumeration over the catalogue + golden-file conformance, format automaton as bound model",
    "DESIGN.md 2/C07", "E4+E7")
add("C08", "fault_enumeration",
    "Complete enumeration of the fault space of every catalogue dump (ordinary and empty-field variant): every truncation point, every labelled header/footer/tag/width word x a replacement alphabet, every foreign writer the reader's grammar rejects, and a stream failing at the n-th read for every n, each put to the loader by a caller with the default stream exception mask and by one who enabled exceptions(failbit|badbit[|eofbit]); "
    "each load runs in a forked child with an alarm so abort / signal / hang are observed; three build/oracle combinations incl. valgrind memcheck for decisions on uninitialised data. The demand is exactly 'an exception'.",
    "count word never corrupted; 'incompatible' defined by the reader's format grammar; memcheck on a strided subset of cases",
    "exhaustive fault-point enumeration (crash points = every byte offset; fault alphabet per labelled word) on the implementation with a fault-injecting stream",
    "DESIGN.md 2/C08", "E6+E7")
add("C15", "exploration",
    "Bounded-exhaustive programs instead of random ones: the C12 history space (construction, writes, copies, assignments, conversions, IO, destruction, with every cell looked up after every operation) lookups at every in-domain coordinate of the stack adjacency cover, and binary IO between field types (dump + load of every array-backed catalogue stack to depth 3 in five configuration variants, every writer -> reader pair differing in interpolator / float width; sanitizer builds), "
    "each built {-O0/-O1 assert, -O2 NDEBUG} x {ASan+UBSan incl. float-cast-overflow, valgrind memcheck}; any sanitizer / memcheck report or assertion is a violation and the digests of all observed values must agree across the four configurations.",
    "programs bounded as in C12 / C02 quick covers; malformed input excluded (C08)",
    "bounded-exhaustive enumeration of operation histories and stack lookups under sanitizer / memcheck oracles in four build configurations",
    "DESIGN.md 2/C15", "E1+E4+E8")

def main():
    props = [json.loads(l) for l in open(os.path.join(V, "properties.jsonl"))]
    checks, na = [], []
    for p in props:
        pid = p["id"]
        if pid in CHECKS and os.path.exists(os.path.join(V, "checks", pid.lower() + ".py")):
            c = CHECKS[pid]
            checks.append({
                "property_id": pid,
                "quick_cmd": "python3 bin/check %s --tier quick" % pid,
                "thorough_cmd": "python3 bin/check %s --tier thorough" % pid,
                "evidence_file": "evidence/%s.json" % pid,
                "replay_cmd_template": "python3 bin/check %s --replay {path}" % pid,
                "engine": c["engine"],
                "level_claimed": {"category": c["category"], "text": c["text"], "design_ref": c["design_ref"]},
                "level_note": c["note"],
                "technique": c["technique"],
            })
        else:
            na.append({"property_id": pid, "reason": "check under construction in this session (see DESIGN.md section 6 for the order); not claimed until its quick and thorough tiers have been run end-to-end"})
    hooks_commits = []
    m = {
        "version": 1,
        "setup_cmd": "python3 tools/setup_check.py",
        "hooks": {
            "guard": "COVFIE_VERIF",
            "enable": "no source hooks exist: harnesses use the public API, user-defined probe backends, a fault-injecting streambuf, replaced operator new/delete and a link-time scheduler; -DCOVFIE_VERIF is therefore never needed",
            "baseline_off_cmd": "cmake --build /repo/_build && /repo/_build/tests/core/test_core && /repo/_build/tests/cpu/test_cpu",
            "source_commits": hooks_commits,
            "add_only": True,
        },
        "engines": [
            {"name": "E1 xplore", "path": "include/vp/xplore.hpp", "serves_properties": sorted(CHECKS), "kind_free_text": "deterministic enumerators (extent vectors, coordinates, cartesian alphabets)"},
            {"name": "E2 probe backends", "path": "include/vp/probe.hpp", "serves_properties": ["C01", "C02", "C10", "C11", "C13", "C16", "C17", "C18"], "kind_free_text": "user-defined primitive backends owning the storage cells (access hook = scheduling point / bounds monitor; query-counting function backend)"},
            {"name": "E3 reference models", "path": "include/vp/interp.hpp", "serves_properties": ["C02", "C15", "C17"], "kind_free_text": "reference interpreter of a runtime stack description, reference curves, binary128 interpolant (harness/c03_linear.cpp), integer affine algebra (harness/c09_affine.cpp)"},
            {"name": "E4 stack grammar", "path": "vplib/grammar.py", "serves_properties": ["C02", "C06", "C07", "C08", "C13", "C15", "C17", "C20"], "kind_free_text": "layer grammar, kind inference, enumeration to a depth, coordinate-sensitive adjacency cover, C++ type/configuration/description generators, view-size model"},
            {"name": "E5 scheduler + explorer", "path": "include/vp/sched.hpp", "serves_properties": ["C16"], "kind_free_text": "cooperative futex hand-off scheduler over real pthreads, preemption-bounded depth-first schedule enumeration with replay; optional function-entry scheduling points via -finstrument-functions"},
            {"name": "E6 fault stream", "path": "include/vp/io.hpp", "serves_properties": ["C06", "C07", "C08"], "kind_free_text": "fault-injecting streambuf, bit-pattern and narrowing alphabets, software round-to-nearest-even, type-erased per-stack IO entries"},
            {"name": "E7 format automaton", "path": "include/vp/format.hpp", "serves_properties": ["C06", "C07", "C08"], "kind_free_text": "independent pushdown reader of the on-disk format, labels every word with its role"},
            {"name": "E8 allocation ledger", "path": "include/vp/ledger.hpp", "serves_properties": ["C12", "C15"], "kind_free_text": "replaced operator new/delete with headers and quarantine: leaks, double and foreign frees per history"},
            {"name": "history explorer", "path": "harness/c12_history.cpp", "serves_properties": ["C12", "C15"], "kind_free_text": "explicit-state BFS over operation histories with canonical-state de-duplication, replay on fresh objects, watchdog"},
            {"name": "CUDA runtime shim", "path": "include/cuda_shim/cuda_runtime_api.h", "serves_properties": ["C05", "C13"], "kind_free_text": "host implementation of the five CUDA runtime calls lib/cuda uses; device memory ASan-poisoned for host access"},
            {"name": "runner", "path": "vplib/core.py", "serves_properties": [c["property_id"] for c in checks], "kind_free_text": "rebuilds every harness from /repo's working tree on every run, runs, harvests, writes evidence, matches known findings, deadline handling"},
        ],
        "checks": checks,
        "not_applicable": na,
        "notes": "All checks rebuild from VERIF_REPO (default /repo). Genuine defects repaired by fix: commits are listed in known_findings.json under 'fixed'.",
    }
    with open(os.path.join(V, "MANIFEST.json"), "w") as fh:
        json.dump(m, fh, indent=1)
        fh.write("\n")
    try:
        import jsonschema
        jsonschema.validate(m, json.load(open("/root/.vp/MANIFEST.schema.json")))
        print("MANIFEST valid:", len(checks), "checks,", len(na), "not_applicable")
    except ImportError:
        print("MANIFEST written (jsonschema not importable here)")

if __name__ == "__main__":
    main()
