#!/usr/bin/env python3
"""Validates MANIFEST.json and every evidence file against the schemas (run with python3-vt for jsonschema)."""
import glob, json, os, sys
import jsonschema
V = os.path.dirname(os.path.dirname(os.path.abspath(__file__)))
jsonschema.validate(json.load(open(V + "/MANIFEST.json")), json.load(open("/root/.vp/MANIFEST.schema.json")))
es = json.load(open("/root/.vp/EVIDENCE.schema.json"))
bad = 0
for f in sorted(glob.glob(V + "/evidence/*.json")):
    try:
        e = json.load(open(f))
        jsonschema.validate(e, es)
        print("ok  ", os.path.basename(f), e["tier"], e["level"], "viol=%s" % e.get("violations"), "wall=%s" % e["wall_s"])
    except Exception as ex:
        bad += 1
        print("BAD ", f, str(ex)[:300])
sys.exit(1 if bad else 0)
