#!/usr/bin/env python3
"""Runs every check of one tier in sequence (refreshes evidence/) and prints one line per check.  usage: tools/run_all.py [quick|thorough] [ids...]"""
import json, os, subprocess, sys, time
V = os.path.dirname(os.path.dirname(os.path.abspath(__file__)))
tier = sys.argv[1] if len(sys.argv) > 1 else "quick"
ids = sys.argv[2:] or [json.loads(l)["id"] for l in open(os.path.join(V, "properties.jsonl"))]
bad = 0
for pid in ids:
    t0 = time.time()
    r = subprocess.run([sys.executable, os.path.join(V, "bin/check"), pid, "--tier", tier], capture_output=True, text=True, cwd=V)
    last = (r.stdout.strip().splitlines() or ["(no output)"])[-1]
    print("%s rc=%d %6.1fs  %s" % (pid, r.returncode, time.time() - t0, last[:200]), flush=True)
    bad += r.returncode != 0
sys.exit(1 if bad else 0)
