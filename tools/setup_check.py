#!/usr/bin/env python3
"""setup_cmd: nothing is prebuilt (every check rebuilds from /repo's working tree); verify the toolchain is present."""
import shutil, subprocess, sys
need = ["g++", "gcc", "python3", "valgrind", "spin", "nm", "cmake"]
missing = [t for t in need if not shutil.which(t)]
if missing:
    print("missing tools:", missing); sys.exit(1)
p = subprocess.run(["g++", "-std=c++20", "-x", "c++", "-fsyntax-only", "-I/repo/lib/core", "-"], input="#include <covfie/core/field.hpp>\nint main(){}\n", text=True, capture_output=True)
if p.returncode:
    print(p.stderr[-2000:]); sys.exit(1)
print("setup ok")
