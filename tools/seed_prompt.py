"""Prints the prompt for one seeded-change request. usage: seed_prompt.py <property id> <worktree> <mechanisms to avoid>"""
import json,sys
pid, wt, avoid = sys.argv[1], sys.argv[2], sys.argv[3]
for l in open('/verif/properties.jsonl'):
    d=json.loads(l)
    if d['id']==pid: break
print(f'''You are helping to evaluate a verification effort for the C++20 header-only library covfie (composable vector fields). You have your own scratch git worktree of the library at {wt} (detached HEAD; headers under {wt}/lib/core/covfie/core, tests under {wt}/tests). Work ONLY inside {wt}; never touch /repo or /verif, and do not read anything under /verif. There is no network.

Your task: write ONE realistic source change to the library (headers under lib/) that BREAKS the following semantic property for some inputs, while the library still compiles and the repository's own test suite (99 tests) still passes. The change should look like something a maintainer could plausibly commit (an optimisation, a refactoring, a "robustness" tweak, a portability fix ...), be subtle, and have a narrow but clearly reachable trigger within the property's stated quantifier. It must be a genuine violation of the property as stated (not merely a change of unspecified behaviour).

PROPERTY {pid}: {d['title']}
Statement: {d['statement']}
Quantified over: {d['quantifier']['text']}

Ideas that have ALREADY been used and must not be repeated (make yours different in mechanism and location): {avoid}

Steps:
1. Read the relevant headers and the tests to understand what the suite exercises.
2. Make the change in the worktree.
3. Build and run the suite exactly like this and make sure all 93 + 6 tests pass:
   cmake -G Ninja -S {wt} -B {wt}/_build -DCOVFIE_BUILD_TESTS=ON -DCMAKE_BUILD_TYPE=RelWithDebInfo -DCMAKE_CXX_FLAGS=-Wno-error -DGTest_DIR=/root/miniconda/lib/cmake/GTest && cmake --build {wt}/_build -j8 && {wt}/_build/tests/core/test_core && {wt}/_build/tests/cpu/test_cpu
   (if cmake configuration fails, look at /repo/_build/CMakeCache.txt for the options used there - read-only)
4. Write a small stand-alone demonstration program {wt}/seed_out/demo.cpp (compiled with g++ -std=c++20 -I{wt}/lib/core) that uses only the public API, prints PASS and exits 0 on the unmodified library, and prints FAIL with the offending input and exits non-zero with your change. Verify BOTH verdicts yourself (use `git stash` / `git stash pop` inside your worktree, or `git diff > patch; git checkout -- lib; ...; git apply patch`).
5. Produce in {wt}/seed_out/: patch.diff (output of `git diff` for lib/ only, applicable with `git apply` on the pinned commit), demo.cpp, and meta.json with the string fields "property" ("{pid}"), "summary" (what was changed and why it is wrong), "needs" (exactly which inputs / stacks / sequences trigger it and which do not), "demo_cmd" (the exact command line for the demo and its expected output with and without the change), "suite" (the suite command and the result).
6. Leave the change applied in the worktree, remove the _build directory when done (disk is limited), and report: a short summary of the change, the trigger, and confirmation of the three verifications (suite passes, demo fails with change, demo passes without).''')
