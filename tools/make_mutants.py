#!/usr/bin/env python3
"""Regenerates the hand-written mutant patches (git format, -p1 relative to the repository root) and mutants/index.json.
Each mutant is a realistic defect; the revert_D* patches (reverts of the fix: commits) are indexed as well."""
import json, os, shutil, subprocess, sys
V = os.path.dirname(os.path.dirname(os.path.abspath(__file__)))
C = "lib/core/covfie/core/"
T = C + "backend/transformer/"
P = C + "backend/primitive/"

M = {}
def mut(name, props, note, edits):
    M[name] = (props, note, edits)

mut("morton_shift_drops_axis", ["C01", "C14", "C05"], "portable Morton shift i*(N-1)+j -> i*(N-1)", [(T + "morton.hpp", "<< (i * (contravariant_input_t::dimensions - 1) + j);", "<< (i * (contravariant_input_t::dimensions - 1));", 2)])
mut("morton_storage_too_small", ["C01", "C18"], "Morton storage sized max^N instead of round_pow2(max)^N", [(T + "morton.hpp", "utility::round_pow2(\n                          *std::max_element(m_sizes.begin(), m_sizes.end())\n                      )", "(\n                          *std::max_element(m_sizes.begin(), m_sizes.end())\n                      )", 1),
     (T + "morton.hpp", "utility::round_pow2(\n                        *std::max_element(sizes.begin(), sizes.end())\n                    )", "(\n                        *std::max_element(sizes.begin(), sizes.end())\n                    )", 1)])
mut("strided_stride_includes_own_axis", ["C01", "C14"], "row-major stride product over l >= k in the view", [(T + "strided.hpp", "                for (std::size_t l = k + 1;\n                     l < contravariant_input_t::dimensions;\n                     ++l)\n                {\n                    tmp *=\n                        static_cast", "                for (std::size_t l = k;\n                     l < contravariant_input_t::dimensions;\n                     ++l)\n                {\n                    tmp *=\n                        static_cast", 1)])
mut("shuffle_reversed", ["C02"], "shuffle applies the reversed index list", [(T + "shuffle.hpp", "return {c.at(Is)...};", "return {c.at(sizeof...(Is) - 1 - Is)...};", 1)])
mut("backup_open_upper_bound", ["C11", "C02"], "backup treats the upper bound as outside (> -> >=)", [(T + "backup.hpp", "coord[i] > m_max[i]", "coord[i] >= m_max[i]", 1)])
mut("backup_queries_first", ["C11"], "backup queries its backend before the range test", [(T + "backup.hpp", "            for (std::size_t i = 0; i < contravariant_input_t::dimensions; ++i)\n            {\n                if (coord[i] < m_min[i] || coord[i] > m_max[i]) {\n                    return m_default;\n                }\n            }\n\n            return m_backend.at(coord);",
     "            typename covariant_output_t::vector_t rv = m_backend.at(coord);\n            for (std::size_t i = 0; i < contravariant_input_t::dimensions; ++i)\n            {\n                if (coord[i] < m_min[i] || coord[i] > m_max[i]) {\n                    return m_default;\n                }\n            }\n\n            return rv;", 1)])
mut("linear_2d_neighbour_bits_swapped", ["C03"], "2-D fast path fetches neighbour (n&1, n&2) instead of (n&2, n&1)", [(T + "linear.hpp", "                             i + ((n & 2) ? 1 : 0)\n                         ),\n                         static_cast<typename decltype(m_backend\n                         )::parent_t::contravariant_input_t::scalar_t>(\n                             j + ((n & 1) ? 1 : 0)", "                             i + ((n & 1) ? 1 : 0)\n                         ),\n                         static_cast<typename decltype(m_backend\n                         )::parent_t::contravariant_input_t::scalar_t>(\n                             j + ((n & 2) ? 1 : 0)", 1)])
mut("linear_2d_weight_typo", ["C03"], "2-D fast path computes ra = 1 - b", [(T + "linear.hpp", "                input_scalar_type ra = static_cast<input_scalar_type>(1.) - a;\n                input_scalar_type rb = static_cast<input_scalar_type>(1.) - b;\n\n                std::remove_reference_t<typename covariant_output_t::vector_t>\n                    pc[4];", "                input_scalar_type ra = static_cast<input_scalar_type>(1.) - b;\n                input_scalar_type rb = static_cast<input_scalar_type>(1.) - b;\n\n                std::remove_reference_t<typename covariant_output_t::vector_t>\n                    pc[4];", 1)])
mut("nn_add_half_truncate", ["C04"], "nearest neighbour as static_cast<long>(c + 0.5f)", [(T + "nearest_neighbour.hpp", "std::lrint(c[i])", "static_cast<long>(c[i] + 0.5f)", 1)])
mut("morton_copy_reads_reversed", ["C05"], "make_morton_copy reads the source at the reversed coordinate", [(T + "morton.hpp", "                    res[idx][i] = nother.at(c)[i];", "                    res[idx][i] = nother.at([&] { auto r = c; for (std::size_t q = 0; q < contravariant_input_t::dimensions; ++q) r[q] = c[contravariant_input_t::dimensions - 1 - q]; return r; }())[i];", 1)])
mut("linear_convert_default_constructs", ["C05"], "linear's converting constructor default-constructs its backend", [(T + "linear.hpp", "        explicit owning_data_t(const T & o)\n            : m_backend(o.m_backend)", "        explicit owning_data_t(const T &)\n            : m_backend()", 1)])
mut("clamp_writes_min_twice", ["C06"], "clamp writer emits m_min twice", [(T + "clamp.hpp", "                reinterpret_cast<const char *>(&o.m_max),", "                reinterpret_cast<const char *>(&o.m_min),", 1)])
mut("backup_reads_default_first", ["C06"], "backup reader reads the default before the box", [(T + "backup.hpp", "            auto min = utility::read_binary<decltype(m_min)>(fs);\n            auto max = utility::read_binary<decltype(m_min)>(fs);\n            auto def = utility::read_binary<decltype(m_default)>(fs);", "            auto def = utility::read_binary<decltype(m_default)>(fs);\n            auto min = utility::read_binary<decltype(m_min)>(fs);\n            auto max = utility::read_binary<decltype(m_min)>(fs);", 1)])
mut("array_tag_changed_consistently", ["C07"], "array IO tag changed in writer and reader alike", [(P + "array.hpp", "IO_MAGIC_HEADER = 0xAB010000;", "IO_MAGIC_HEADER = 0xAB010003;", 1)])
mut("array_count_32bit", ["C07", "C06"], "element count written and read as 32 bit", [(P + "array.hpp", "utility::read_binary<std::decay_t<decltype(m_size)>>(fs);", "utility::read_binary<uint32_t>(fs);", 1),
     (P + "array.hpp", "            fs.write(\n                reinterpret_cast<const char *>(&o.m_size),\n                sizeof(std::decay_t<decltype(o.m_size)>)\n            );", "            fs.write(\n                reinterpret_cast<const char *>(&o.m_size),\n                sizeof(uint32_t)\n            );", 1)])
mut("tag_compared_low_16_bits", ["C08"], "backend header tag compared on its low 16 bits only", [(C + "utility/binary_io.hpp", "    if (hdr2 != hdr) {", "    if ((hdr2 & 0xffffu) != (hdr & 0xffffu)) {", 1)])
mut("footer_not_checked", ["C08"], "read_io_footer accepts any backend footer tag", [(C + "utility/binary_io.hpp", "    if (ftr2 != ftr) {", "    if (false && ftr2 != ftr) {", 1)])
mut("affine_product_bottom_row_zero", ["C09"], "embedded (N+1)x(N+1) matrices get an all-zero last row", [(C + "algebra/affine.hpp", "                m1(N, j) = 1.f;\n                m2(N, j) = 1.f;", "                m1(N, j) = 0.f;\n                m2(N, j) = 0.f;", 1)])
mut("clamp_only_upper", ["C10", "C02"], "clamp only limits from above", [(T + "clamp.hpp", "return {std::clamp(coord[Is], m_min[Is], m_max[Is])...};", "return {std::min(coord[Is], m_max[Is])...};", 1)])
mut("array_self_assign_unguarded", ["C12", "C15"], "array copy assignment without the self-assignment guard", [(P + "array.hpp", "            if (this == &o) {\n                return *this;\n            }\n\n", "", 1)])
mut("array_move_keeps_pointer", ["C12"], "array move constructor copies the pointer without releasing the source", [(P + "array.hpp", "        owning_data_t(owning_data_t &&) = default;\n", "        owning_data_t(owning_data_t && o)\n            : m_size(o.m_size)\n            , m_ptr(o.m_ptr.get())\n        {\n        }\n", 1)])
mut("strided_pack_ctor_removed", ["C13"], "strided loses its parameter_pack<T> constructor", [(T + "strided.hpp", "        template <\n            typename T,\n            std::enable_if_t<std::is_constructible_v<owning_data_t, T>, bool> =\n                true>\n        explicit owning_data_t(parameter_pack<T> && args)\n            : owning_data_t(args.x)\n        {\n        }\n", "", 1)])
mut("morton_view_user_copy_ctor", ["C13"], "Morton view gets a user-provided copy constructor (no longer trivially copyable)", [(T + "morton.hpp", "        non_owning_data_t(const owning_data_t & o)\n            : m_sizes(o.m_sizes)\n            , m_storage(o.m_storage)\n        {\n        }\n\n        COVFIE_DEVICE typename covariant_output_t::vector_t\n        at(typename contravariant_input_t::vector_t c) const\n        {\n#ifndef NDEBUG", "        non_owning_data_t(const owning_data_t & o)\n            : m_sizes(o.m_sizes)\n            , m_storage(o.m_storage)\n        {\n        }\n\n        non_owning_data_t(const non_owning_data_t & o)\n            : m_sizes(o.m_sizes)\n            , m_storage(o.m_storage)\n        {\n        }\n\n        COVFIE_DEVICE typename covariant_output_t::vector_t\n        at(typename contravariant_input_t::vector_t c) const\n        {\n#ifndef NDEBUG", 1)])
mut("hilbert_dimension_assert_dropped", ["C13"], "hilbert's N == 2 static_assert removed", [(T + "hilbert.hpp", "        contravariant_input_t::dimensions == 2,", "        contravariant_input_t::dimensions >= 2,", 1)])
mut("pdep_mask_reversed", ["C14"], "BMI2 deposit mask shifted by N-1-I (still a bijection: C01 rightly stays silent, only the published curve / BMI2==portable clause breaks)", [(T + "morton.hpp", "            << I;\n    };", "            << (N - 1 - I);\n    };", 1)])
mut("hilbert_rot_without_swap", ["C14"], "Hilbert rotation omits the x/y swap (still injective and in bounds: C01 rightly stays silent, the curve loses adjacency)", [(T + "hilbert.hpp", "            std::size_t t = *x;\n            *x = *y;\n            *y = t;", "            std::size_t t = *x;\n            (void)t;", 1)])
mut("round_pow2_strict", ["C18"], "round_pow2 loop uses j <= i", [(C + "utility/numeric.hpp", "    for (; j < i; j *= 2)", "    for (; j <= i; j *= 2)", 1)])
mut("ipow_square_first", ["C18"], "ipow squares before multiplying", [(C + "utility/numeric.hpp", "        if (p & 1) {\n            r *= i;\n        }\n\n        i *= i;", "        i *= i;\n\n        if (p & 1) {\n            r *= i;\n        }", 1)])
mut("nd_map_tail_wrong_axis", ["C19"], "tail() drops the last axis instead of the first", [(C + "utility/nd_map.hpp", "{t.at(Ns + 1u)...};", "{t.at(Ns)...};", 1)])
mut("sort_filter_lt_inclusive", ["C20"], "filter_index_sequence_lt keeps V <= N", [(C + "utility/static_permutation.hpp", "V<N, std::index_sequence<V>, std::index_sequence<>>,", "(V <= N), std::index_sequence<V>, std::index_sequence<>>,", 1)])
mut("linear_static_scratch", ["C16"], "linear's neighbour buffer hoisted to static storage", [(T + "linear.hpp", "std::remove_reference_t<typename covariant_output_t::vector_t>\n                    pc[", "static std::remove_reference_t<typename covariant_output_t::vector_t>\n                    pc[", 4)])
mut("morton_static_index_cache", ["C16"], "one-entry static cache in morton::calculate_index", [(T + "morton.hpp", "    COVFIE_DEVICE static std::size_t\n    calculate_index(typename contravariant_input_t::vector_t c)\n    {", "    COVFIE_DEVICE static std::size_t\n    calculate_index(typename contravariant_input_t::vector_t c)\n    {\n        static typename contravariant_input_t::vector_t last_c;\n        static std::size_t last_idx = 0;\n        static bool have = false;\n        if (have) {\n            bool same = true;\n            for (std::size_t q = 0; q < contravariant_input_t::dimensions; ++q) same = same && last_c[q] == c[q];\n            if (same) return last_idx;\n        }\n        last_c = c;\n        have = true;\n        last_idx = calculate_index_uncached(c);\n        return last_idx;\n    }\n\n    COVFIE_DEVICE static std::size_t\n    calculate_index_uncached(typename contravariant_input_t::vector_t c)\n    {", 1)])
mut("pack_for_depth2_swapped", ["C17", "C13"], "make_parameter_pack_for (depth 2) forwards (a1, a0)", [(C + "parameter_pack.hpp", "    return make_parameter_pack(\n        std::forward<typename utility::nth_backend<typename F::backend_t, 0>::\n                         type::configuration_t>(a0),\n        std::forward<typename utility::nth_backend<typename F::backend_t, 1>::\n                         type::configuration_t>(a1)\n    );\n}\n\ntemplate <\n    typename F,\n    std::enable_if_t<\n        utility::backend_depth<typename F::backend_t>::value == 3,", "    return make_parameter_pack(\n        std::forward<typename utility::nth_backend<typename F::backend_t, 1>::\n                         type::configuration_t>(a1),\n        std::forward<typename utility::nth_backend<typename F::backend_t, 0>::\n                         type::configuration_t>(a0)\n    );\n}\n\ntemplate <\n    typename F,\n    std::enable_if_t<\n        utility::backend_depth<typename F::backend_t>::value == 3,", 1)])

mut("field_rejects_trailing_data", ["C06"], "field(std::istream&) refuses a stream that continues behind the field's footer (a second field, a container file)", [(C + "field.hpp", "        utility::read_io_footer(fs, IO_MAGIC_HEADER);\n    }\n\n    field & operator=(const field &) = default;", "        utility::read_io_footer(fs, IO_MAGIC_HEADER);\n\n        if (fs.peek() != std::istream::traits_type::eof()) {\n            throw std::runtime_error(\"Trailing data after covfie vector field.\");\n        }\n    }\n\n    field & operator=(const field &) = default;", 1)])

REVERTS = {"revert_D1": (["C12", "C15"], "revert of fix: array copy assignment"), "revert_D2": (["C08"], "revert of fix: read_binary stream check"),
           "revert_D3": (["C01", "C14", "C05", "C13"], "revert of fix: hilbert index"), "revert_D4": (["C05", "C13"], "revert of fix: morton this_t"),
           "revert_D5": (["C06", "C13"], "revert of fix: constant read_binary"), "revert_D6": (["C06", "C13"], "revert of fix: cast/dereference write_binary"),
           "revert_D7": (["C03", "C02", "C13"], "revert of fix: linear dispatch on input dimension"), "revert_D8": (["C02"], "revert of fix: covariant_cast index sequence"),
           "revert_D9": (["C04"], "revert of fix: nearest neighbour lrint"), "revert_D10": (["C13", "C05"], "revert of fix: cuda_device_array copies"),
           "revert_D11": (["C01", "C13"], "revert of fix: strided copy coordinate type")}


def main():
    wt = "/tmp/vp_mkmut"
    subprocess.run(["git", "-C", "/repo", "worktree", "remove", "--force", wt], capture_output=True)
    shutil.rmtree(wt, ignore_errors=True)
    subprocess.run(["git", "-C", "/repo", "worktree", "add", "--detach", wt, "HEAD"], check=True, capture_output=True)
    index = {}
    try:
        for name, (props, note, edits) in M.items():
            subprocess.run(["git", "-C", wt, "checkout", "--", "."], check=True)
            for f, old, new, cnt in edits:
                p = os.path.join(wt, f)
                s = open(p).read()
                if s.count(old) != cnt:
                    print("MUTANT %s: expected %d occurrence(s) in %s, found %d" % (name, cnt, f, s.count(old)))
                    sys.exit(1)
                open(p, "w").write(s.replace(old, new))
            d = subprocess.run(["git", "-C", wt, "diff"], capture_output=True, text=True).stdout
            open(os.path.join(V, "mutants", name + ".patch"), "w").write(d)
            index[name] = {"patch": "mutants/%s.patch" % name, "properties": props, "note": note}
        for name, (props, note) in REVERTS.items():
            index[name] = {"patch": "mutants/%s.patch" % name, "properties": props, "note": note}
    finally:
        subprocess.run(["git", "-C", "/repo", "worktree", "remove", "--force", wt], capture_output=True)
        shutil.rmtree(wt, ignore_errors=True)
    # benign variants: CORRECT alternative implementations; every listed check must stay silent on them (false-alarm guard)
    index["benign_morton_magic_static_table"] = {"patch": "mutants/benign_morton_magic_static_table.patch", "properties": [], "silent": ["C16", "C14", "C01", "C05"],
                                                 "note": "portable Morton index through a function-local static table with thread-safe (magic static) initialisation - correct"}
    index["benign_hilbert_mutex_cache"] = {"patch": "mutants/benign_hilbert_mutex_cache.patch", "properties": [], "silent": ["C16", "C14", "C01"],
                                           "note": "process-wide one-entry index cache in the Hilbert view, protected by a std::mutex - correct"}
    index["benign_nn_round_half_away"] = {"patch": "mutants/benign_nn_round_half_away.patch", "properties": [], "silent": ["C04", "C02", "C05", "C15"],
                                          "note": "nearest neighbour with std::lround (ties away from zero instead of to even) - still a closest lattice point"}
    # first kept as a "benign" variant; seed C03d (the same rewrite, found independently) showed that it is not: the property
    # quantifies over arbitrary finite stored values, and v1 - v0 overflows for opposite-sign neighbours near the largest
    # finite value (NaN at the lattice point, inf inside the cell) where the convex form cannot
    index["linear_1d_difference_form"] = {"patch": "mutants/linear_1d_difference_form.patch", "properties": ["C03"],
                                          "note": "1-D linear path written as v0 + a*(v1-v0): equal up to rounding for ordinary data, overflows for opposite-sign neighbours near the largest finite value"}
    index["benign_reworded_static_asserts"] = {"patch": "mutants/benign_reworded_static_asserts.patch", "properties": [], "silent": ["C13"],
                                               "note": "two kind-check messages reworded"}
    index["benign_clamp_view_padding"] = {"patch": "mutants/benign_clamp_view_padding.patch", "properties": [], "silent": ["C13", "C02", "C10", "C17"],
                                          "note": "clamp's view grows by 32 bytes: some deep stacks now exceed field_view's 256-byte limit (ill-kinded by the library's own rule), nothing else changes"}
    index["benign_array_bulk_io"] = {"patch": "mutants/benign_array_bulk_io.patch", "properties": [], "silent": ["C06", "C07", "C08", "C12", "C15"],
                                     "note": "array payload written with one write and, when the widths match, read with one checked bulk read - same bytes, same failures"}
    index["benign_nd_map_first_index_fastest"] = {"patch": "mutants/benign_nd_map_first_index_fastest.patch", "properties": [], "silent": ["C19", "C05", "C01", "C12"],
                                                  "note": "nd_map rewritten as one counter tuple with carry, first index fastest (half of seed C05c): every tuple still visited exactly once - correct"}
    index["benign_affine_direct_composition"] = {"patch": "mutants/benign_affine_direct_composition.patch", "properties": [], "silent": ["C09", "C02", "C05"],
                                                 "note": "affine*affine composed directly (A1*A2, A1*t2+t1) instead of through the (N+1)x(N+1) embedding - correct"}
    index["benign_array_assign_reuse_buffer"] = {"patch": "mutants/benign_array_assign_reuse_buffer.patch", "properties": [], "silent": ["C12", "C15", "C05"],
                                                 "note": "array copy assignment keeps its allocation when it exists and has the right size, and always updates the size - the correct version of seeds C12/C12b"}
    index["benign_array_block_loader"] = {"patch": "mutants/benign_array_block_loader.patch", "properties": [], "silent": ["C06", "C07", "C08", "C12"],
                                          "note": "array payload read through a 4 KiB buffer with the running offset applied - the correct version of seed C06d"}
    index["benign_exception_mask_guard"] = {"patch": "mutants/benign_exception_mask_guard.patch", "properties": [], "silent": ["C08", "C06", "C07"],
                                            "note": "field(istream&) suspends the caller's stream exception mask and restores it in a destructor that swallows the re-check failure - the correct version of seed C08d"}
    index["benign_strided_view_strides"] = {"patch": "mutants/benign_strided_view_strides.patch", "properties": [], "silent": ["C16", "C01", "C14", "C05", "C13"],
                                            "note": "row-major strides worked out once per VIEW in its constructor (no shared state) - the correct version of seed C16d; the view grows by 8N bytes"}
    index["benign_strided_move_resets_source"] = {"patch": "mutants/benign_strided_move_resets_source.patch", "properties": [], "silent": ["C12", "C05", "C15"],
                                                  "note": "strided move operations zero the moved-from extents, with a self-assignment guard - the correct version of seed C12e"}
    index["benign_hilbert_thread_local_memo"] = {"patch": "mutants/benign_hilbert_thread_local_memo.patch", "properties": [], "silent": ["C16", "C14", "C01", "C05"],
                                                 "note": "per-thread (thread_local) memo of the last Hilbert index - the correct version of seed C16"}
    # seeded changes delivered by independent sub-agents (seeded/<id>/meta.json carries "check_with")
    import glob
    for mp in sorted(glob.glob(os.path.join(V, "seeded/*/meta.json"))):
        meta = json.load(open(mp))
        sid = os.path.basename(os.path.dirname(mp))
        index["seed_" + sid] = {"patch": "seeded/%s/patch.diff" % sid, "properties": meta.get("check_with", [meta.get("property", sid[:3])]), "note": "seeded by a sub-agent: " + meta.get("summary", "")[:160]}
    json.dump(index, open(os.path.join(V, "mutants/index.json"), "w"), indent=1, sort_keys=True)
    print(len(index), "mutants indexed")


if __name__ == "__main__":
    main()
