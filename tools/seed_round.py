"""Prepares one round of seeded-change requests: for every id given (e.g. C06g) a scratch worktree /tmp/seed/<id> of /repo and a
prompt file /tmp/p_<id>.txt (property text + steps + the mechanisms already used for that property, taken from seeded/*/meta.json).
The prompt is what a fresh sub-agent receives - nothing from /verif. usage: tools/seed_round.py C06g C09f ..."""
import os
import json,glob,subprocess,sys
extra={
 'C07':'Prefer something visible only through golden files of the pinned revision (a changed default, a reordered field inside a configuration blob, endianness helper), or widening/narrowing of special values within the finite range (negative zero, smallest subnormal, values that round to FLT_MAX).',
 'C02':'Prefer the dereference, covariant_cast, constant or identity layers, stacks with N != M, or the way field_view forwards its variadic at(...) overload.',
 'C03':'Prefer the 2-D path, double coordinates over float storage (conversion to the coordinate precision), the last cell of an axis, or the generic path for N=5.',
 'C17':'Prefer get_configuration()/get_backend() of strided/morton/hilbert/constant/array layers, or make_parameter_pack (not _for) with rvalue/lvalue arguments.',
 'C20':'Prefer sort_index_sequence for longer sequences (length >= 7), sequences containing large values, or is_permutation on sequences of different lengths.',
 'C04':'Prefer double-precision coordinates, N=3/4 specifics, negative values inside (-0.5, 0), or interaction with the coordinate/index type conversion (static_cast to the integer coordinate type).',
 'C05':'Prefer conversions INTO row-major from Hilbert, conversions of deep wrapped stacks, the moved-from source state, conversions changing the integer coordinate type, or fields whose extents contain 1.',
 'C08':'Prefer a failure mode other than missing checks on the array payload: e.g. a catch-and-continue, a loop that does not terminate on a failed stream, a noexcept function, a huge allocation from an unvalidated count, reading the footer of an inner layer, or state left in the stream.',
 'C12':'Prefer copy construction/assignment of WRAPPER layers (clamp, affine, backup, interpolators) sharing inner storage, dump+load into an existing field, destruction order, or field_view outliving reassignment.',
 'C15':'Prefer signed overflow, shifts by the type width, misaligned or type-punned access, returning a reference to a temporary, or reading an uninitialised member on a rarely used constructor path - reachable with in-domain arguments.',
 'C16':'Prefer something outside the layers already used (hilbert memo, morton table, linear weights, strided strides, affine scratch): e.g. nearest_neighbour, clamp, backup, array, field_view, or state shared between COPIES of a view.',
 'C18':'Prefer the curve-storage clause (Morton/Hilbert storage length vs largest curve position) for unusual extents, or round_pow2 for small types / exact powers of two.',
 'C19':'Prefer high dimensionality (N=4,5), extents containing 0 or 1 in the middle, or the callback receiving a reference that is later modified.',
 'C06':'Prefer configuration blobs of layers other than array (backup defaults, clamp bounds, constant values, affine for N=4, shuffle/cast/dereference passthrough), the global field header/footer, or extents/sizes of Hilbert/Morton layers with unusual values.',
 'C09':'Prefer the translation()/scaling()/identity() constructors, algebra::vector/matrix helpers, products of 3-4 transforms, or N=1 / N=4 specifics.',
 'C10':'Prefer clamp placed BELOW an interpolator (integer coordinates), the default (extents-based) configuration, signed integer extremes, or N=3/4 specifics.',
 'C11':'Prefer M != N default vectors, integer coordinate extremes, the boundary-equal case, or the value path (what is returned when inside the box).',
 'C13':'Prefer the API side: something every well-kinded stack must support (construction from parameter packs, copy/move, views of const fields, conversion between stacks, dump/load signatures, trivially copyable views) that silently stops compiling or changes type for SOME stacks only.',
 'C14':'Prefer the row-major layer for unusual coordinate types, Morton for N=4 or coordinates near 2^16, or Hilbert orientation (which neighbour comes second).',
 'C01':'Prefer the strided layer with unusual coordinate scalar types (int, unsigned, long), N=4, write-through-view isolation, or a field built from a parameter pack rather than by conversion.',
 'C07x':'Prefer the nested header/footer grammar (tags, order of footer words), the float-width word, or interpolator/precision twins other than the array payload conversion.',
}
for pid,suffix in [(a[:3],a) for a in sys.argv[1:]]:
    prev=[]
    for p in sorted(glob.glob('/verif/seeded/%s*/meta.json'%pid)):
        m=json.load(open(p)); prev.append('('+p.split('/')[-2]+') '+m['summary'][:150].replace('\n',' ')+'...')
    avoid=' ; '.join(prev)+'. '+extra.get(pid,'')
    wt='/tmp/seed/'+suffix
    subprocess.run(['git','-C','/repo','worktree','add','--detach',wt],capture_output=True)
    out=subprocess.run(['python3', os.path.join(os.path.dirname(os.path.abspath(__file__)), 'seed_prompt.py'), pid, wt, avoid],capture_output=True,text=True).stdout
    open('/tmp/p_%s.txt'%suffix,'w').write(out)
    print(suffix,len(out))
