"""Engine E4: the layer grammar of covfie, enumeration of well-kinded stacks, and C++ code generation.

A stack is a list of Layer objects from the OUTERMOST layer to the innermost (primitive) backend.

  Prim    ::= array<TM> | constant<SN,UM> | identity<SN> | probe_array<TM> | probe_fn<SN,UM>
  Storage ::= strided<IN,P> | morton<IN,P,bmi2> | hilbert<I2,P>          P takes a flat index (array, probe_array)
                                                                          or a 1-vector (identity<size1>, constant<size1,TM>)
  IntW    ::= clamp<X> | backup<X> | shuffle<X,perm> | dereference<X> | covariant_cast<T,X>
  Interp  ::= nearest_neighbour<X,RN> | linear<X,RN>
  RealW   ::= affine<X> | clamp<X> | backup<X> | shuffle<X,perm> | covariant_cast<T,X> | dereference<X>
  Stack   ::= RealW* Interp? IntW* (Storage Prim | constant | identity | probe_fn)

Kinds are tracked bottom-up: input (scalar type, N, flat-index?) and output (scalar type, M, reference?).
"""
import itertools

INT_TYPES = ["std::size_t", "unsigned", "int", "long"]
REAL_TYPES = ["float", "double"]
LARGE_EXT = {1: [2100], 2: [47, 45], 3: [13, 14, 12], 4: [7, 8, 6, 7]}  # IO-only variant 4
EXT = [3, 4, 2, 3, 2]          # extents per axis used by every generated storage layer


def is_real(t):
    return t in REAL_TYPES


def short(t):
    return {"std::size_t": "size_t"}.get(t, t)


class Kind:
    def __init__(self, in_t, n, flat, out_t, m, ref):
        self.in_t, self.n, self.flat, self.out_t, self.m, self.ref = in_t, n, flat, out_t, m, ref

    def __repr__(self):
        return "%s^%d%s -> %s^%d%s" % (short(self.in_t), self.n, "(flat)" if self.flat else "", short(self.out_t), self.m, "&" if self.ref else "")


class Layer:
    """kind in: array probe_array constant identity probe_fn strided morton_bmi morton_port hilbert
                clamp backup shuffle dereference cast nn linear affine"""
    PRIMS = ("array", "probe_array", "constant", "identity", "probe_fn")
    STORAGE = ("strided", "morton_bmi", "morton_port", "hilbert")
    WRAP = ("clamp", "backup", "shuffle", "dereference", "cast", "affine")
    INTERP = ("nn", "linear")

    def __init__(self, kind, **p):
        self.kind = kind
        self.p = p
        self.k = None      # Kind, filled by Stack.resolve
        self.cfg = None    # configuration values (python), filled by Stack.assign_configs

    def __repr__(self):
        return self.kind + (str(self.p) if self.p else "")


def vd(t, n):
    return "covfie::vector::vector_d<%s, %d>" % (t, n)


class Stack:
    def __init__(self, layers, cfgvar=0):
        self.layers = layers
        self.cfgvar = cfgvar
        self.ok = self.resolve()
        if self.ok:
            self.assign_configs()
            if cfgvar:
                self.special_configs(cfgvar)

    # ---------------------------------------------------------------- kinds
    def resolve(self):
        below = None
        for L in reversed(self.layers):
            k = self._kind(L, below)
            if k is None:
                return False
            L.k = k
            below = L
        return True

    def _kind(self, L, below):
        p, bk = L.p, (below.k if below is not None else None)
        kd = L.kind
        if kd in ("array", "probe_array"):
            return Kind("std::size_t", 1, True, p["t"], p["m"], True) if below is None else None
        if kd in ("constant", "probe_fn"):
            return Kind(p["s"], p["n"], False, p["t"], p["m"], False) if below is None else None
        if kd == "identity":
            return Kind(p["s"], p["n"], False, p["s"], p["n"], False) if below is None else None
        if below is None:
            return None
        if kd in Layer.STORAGE:
            # beneath: a flat-index primitive or a 1-vector backend with an integral size_t-like input
            if below.kind not in Layer.PRIMS:
                return None
            if not (bk.flat or (bk.n == 1 and not is_real(bk.in_t))):
                return None
            if below.kind == "probe_fn":
                return None
            if is_real(p["i"]):
                return None
            if kd == "hilbert" and p["n"] != 2:
                return None
            return Kind(p["i"], p["n"], False, bk.out_t, bk.m, bk.ref)
        if bk.flat:
            return None  # every other layer needs a vector input beneath
        if kd == "clamp":
            return Kind(bk.in_t, bk.n, False, bk.out_t, bk.m, bk.ref)
        if kd == "backup":
            return Kind(bk.in_t, bk.n, False, bk.out_t, bk.m, False)
        if kd == "shuffle":
            if sorted(p["perm"]) != list(range(bk.n)):
                return None
            return Kind(bk.in_t, bk.n, False, bk.out_t, bk.m, bk.ref)
        if kd == "dereference":
            return Kind(bk.in_t, bk.n, False, bk.out_t, bk.m, False)
        if kd == "cast":
            return Kind(bk.in_t, bk.n, False, p["t"], bk.m, False)
        if kd == "affine":
            if not is_real(bk.in_t):
                return None
            return Kind(bk.in_t, bk.n, False, bk.out_t, bk.m, bk.ref)
        if kd == "nn":
            if is_real(bk.in_t) or not is_real(p["r"]):
                return None
            return Kind(p["r"], bk.n, False, bk.out_t, bk.m, bk.ref)
        if kd == "linear":
            if is_real(bk.in_t) or not is_real(p["r"]) or not is_real(bk.out_t):
                return None
            return Kind(p["r"], bk.n, False, bk.out_t, bk.m, False)
        return None

    # -------------------------------------------------------------- C++ type
    def cpp_type(self, upto=0):
        t = None
        for L in reversed(self.layers[upto:]):
            t = self._cpp(L, t)
        return t

    def _cpp(self, L, inner):
        p, kd = L.p, L.kind
        B = "covfie::backend::"
        if kd == "array":
            return B + "array<%s>" % vd(p["t"], p["m"])
        if kd == "probe_array":
            return "vp::probe_array<%s>" % vd(p["t"], p["m"])
        if kd == "constant":
            return B + "constant<%s, %s>" % (vd(p["s"], p["n"]), vd(p["t"], p["m"]))
        if kd == "probe_fn":
            return "vp::probe_fn<%s, %s>" % (vd(p["s"], p["n"]), vd(p["t"], p["m"]))
        if kd == "identity":
            return B + "identity<%s>" % vd(p["s"], p["n"])
        if kd == "strided":
            return B + "strided<%s, %s>" % (vd(p["i"], p["n"]), inner)
        if kd == "morton_bmi":
            return B + "morton<%s, %s, true>" % (vd(p["i"], p["n"]), inner)
        if kd == "morton_port":
            return B + "morton<%s, %s, false>" % (vd(p["i"], p["n"]), inner)
        if kd == "hilbert":
            return B + "hilbert<%s, %s>" % (vd(p["i"], p["n"]), inner)
        if kd == "clamp":
            return B + "clamp<%s>" % inner
        if kd == "backup":
            return B + "backup<%s>" % inner
        if kd == "shuffle":
            return B + "shuffle<%s, std::index_sequence<%s>>" % (inner, ", ".join(str(x) for x in p["perm"]))
        if kd == "dereference":
            return B + "dereference<%s>" % inner
        if kd == "cast":
            return B + "covariant_cast<%s, %s>" % (p["t"], inner)
        if kd == "affine":
            return B + "affine<%s>" % inner
        if kd == "nn":
            return B + "nearest_neighbour<%s, %s>" % (inner, vd(p["r"], L.k.n))
        if kd == "linear":
            return B + "linear<%s, %s>" % (inner, vd(p["r"], L.k.n))
        raise ValueError(kd)

    # ------------------------------------------------------ configurations
    def assign_configs(self):
        """Pairwise distinct configuration values per layer (so that swapping two layers of one kind is visible)."""
        depth = len(self.layers)
        for idx, L in enumerate(self.layers):
            k, kd = L.k, L.kind
            if kd in ("clamp", "backup"):
                # box inside [0, ext-1] of a storage beneath (extents EXT); distinct per layer index
                lo = [(idx + a) % 2 for a in range(k.n)]
                hi = [min(EXT[a] - 1, lo[a] + 1 + (idx % 2)) for a in range(k.n)]
                if is_real(k.in_t):
                    # real-level boxes get non-integer bounds (a bound handled in an integer type becomes visible)
                    lo = [x + 0.25 for x in lo]
                    hi = [x + 0.5 for x in hi]
                L.cfg = {"min": lo, "max": hi}
                if kd == "backup":
                    # negative for floating outputs; integral outputs (identity<size1> beneath a storage order) get positive values,
                    # a negative one would be converted to an unsigned type out of range in the reference interpreter
                    L.cfg["default"] = [(-(100 + 10 * idx + j)) if is_real(k.out_t) else (100 + 10 * idx + j) for j in range(k.m)]
            elif kd == "affine":
                # exact in binary: scale 1/2 or 1 or 2, translation multiples of 1/4; one shear entry; distinct per layer
                n = k.n
                A = [[0.0] * (n + 1) for _ in range(n)]
                for i in range(n):
                    # never the identity map (also for N = 1), and no two adjacent affine layers commute
                    A[i][i] = [2.0, 0.5, 1.0][(idx + i) % 3]
                    A[i][n] = 0.25 * (1 + (idx + i) % 3)
                if n > 1:
                    A[0][n - 1] = 0.5 if idx % 2 else 0.25
                L.cfg = {"A": A}
            elif kd in Layer.STORAGE:
                L.cfg = {"sizes": [EXT[a] for a in range(k.n)]}
            elif kd in ("array", "probe_array"):
                above = self.layers[idx - 1] if idx > 0 else None
                L.cfg = {"size": storage_len(above) if above is not None and above.kind in Layer.STORAGE else 7}
            elif kd == "constant":
                L.cfg = {"value": [1000 + 10 * idx + j + 0.5 for j in range(k.m)]}
            elif kd == "probe_fn":
                L.cfg = {"salt": 7 + idx}
            else:
                L.cfg = {}

    def special_configs(self, var):
        """IO-only configuration alphabets (no lookups are performed on such fields): signed zeros, infinities, NaN,
        denormals and type extremes in every configuration blob (var 1), degenerate 1-cell extents (var 2), an empty
        field (var 3), a payload of several KiB (var 4)."""
        inf, nan = float("inf"), float("nan")
        for idx, L in enumerate(self.layers):
            k, kd = L.k, L.kind
            if var == 1:
                if kd in ("clamp", "backup"):
                    if is_real(k.in_t):
                        # includes a reversed box, (+0, -0), and NaN bounds: a loader must reproduce them, not "repair" them
                        mins = [-0.0, -inf, 5e-324 if k.in_t == "double" else 1e-45, 9.0, 0.0, nan, -1.5]
                        maxs = [inf, 0.0, 3.0e38, 2.0, -0.0, 1.0, nan]
                        L.cfg["min"] = [mins[(idx + a) % 7] for a in range(k.n)]
                        L.cfg["max"] = [maxs[(idx + a) % 7] for a in range(k.n)]
                    else:
                        top = {"std::size_t": 2**64 - 1, "unsigned": 2**32 - 1, "int": 2**31 - 1, "long": 2**63 - 1}[k.in_t]
                        L.cfg["min"] = [[0, 1, top - 1][(idx + a) % 3] for a in range(k.n)]
                        L.cfg["max"] = [[top, 0, 7][(idx + a) % 3] for a in range(k.n)]
                    if kd == "backup":
                        L.cfg["default"] = [[nan, -0.0, inf, -inf, 1e-45, -3.0e38][(idx + j) % 6] if is_real(k.out_t) else (idx + j) for j in range(k.m)]
                elif kd == "affine":
                    n = k.n
                    pool = [-0.0, inf, 1e-45, -3.0e38, nan, 1.0, 0.1, -inf]
                    L.cfg["A"] = [[pool[(idx + i * (n + 1) + j) % len(pool)] for j in range(n + 1)] for i in range(n)]
                elif kd == "constant":
                    pool = [-0.0, nan, inf, 1e-45, -3.0e38, 0.1]
                    if is_real(k.out_t):
                        L.cfg["value"] = [pool[(idx + j) % len(pool)] for j in range(k.m)]
            elif var == 3:
                # an empty field: first extent 0, zero stored cells
                if kd in Layer.STORAGE:
                    L.cfg["sizes"] = [0] + [EXT[a] for a in range(1, k.n)]
                elif kd in ("array", "probe_array"):
                    above = self.layers[idx - 1] if idx > 0 else None
                    if above is not None and above.kind in Layer.STORAGE:
                        L.cfg["size"] = 0
            elif var == 5:
                # the smallest storage that still holds every cell of the extents: Morton / Hilbert storage cut off right
                # after the largest curve position a lattice coordinate reaches (a valid field, built through the public
                # parameter-pack interface; the enclosing power-of-two cube is only an upper bound)
                if kd in ("array", "probe_array"):
                    above = self.layers[idx - 1] if idx > 0 else None
                    if above is not None and above.kind in Layer.STORAGE:
                        L.cfg["size"] = tight_storage_len(above)
            elif var == 4:
                # a payload of more than two 4 KiB blocks in either float width, with unequal extents
                if kd in Layer.STORAGE:
                    L.cfg["sizes"] = LARGE_EXT.get(k.n, [5] * k.n)
                elif kd in ("array", "probe_array"):
                    above = self.layers[idx - 1] if idx > 0 else None
                    L.cfg["size"] = storage_len(above) if above is not None and above.kind in Layer.STORAGE else 2100
            elif var == 2:
                if kd in Layer.STORAGE:
                    L.cfg["sizes"] = [1 for _ in range(k.n)]
                elif kd in ("array", "probe_array"):
                    above = self.layers[idx - 1] if idx > 0 else None
                    if above is not None and above.kind in Layer.STORAGE:
                        L.cfg["size"] = 1

    def depth(self):
        return len(self.layers)

    def name(self):
        return " > ".join(L.kind + ("" if not L.p.get("perm") else str(tuple(L.p["perm"]))) for L in self.layers) + "  [%r]" % self.layers[0].k

    def short(self):
        return "/".join(L.kind for L in self.layers)

    def serialisable(self):
        return not any(L.kind in ("probe_array", "probe_fn") for L in self.layers)

    # configuration expression (C++) of layer idx
    def cfg_expr(self, idx):
        L = self.layers[idx]
        k, kd = L.k, L.kind
        ty = self.cpp_type(idx)
        def arr(t, vals):
            return "covfie::array::array<%s, %d>{%s}" % (t, len(vals), ", ".join(lit(t, v) for v in vals)) if len(vals) > 1 else \
                   "covfie::array::array<%s, 1>(static_cast<%s>(%s))" % (t, t, lit(t, vals[0]))
        if kd == "clamp":
            return "typename %s::configuration_t{%s, %s}" % (ty, arr(k.in_t, L.cfg["min"]), arr(k.in_t, L.cfg["max"]))
        if kd == "backup":
            return "typename %s::configuration_t{%s, %s, %s}" % (ty, arr(k.in_t, L.cfg["min"]), arr(k.in_t, L.cfg["max"]), arr(k.out_t, L.cfg["default"]))
        if kd == "affine":
            n = k.n
            rows = ", ".join(arr(k.in_t, row) for row in L.cfg["A"])
            return "typename %s::configuration_t(covfie::algebra::matrix<%d, %d, %s>(covfie::array::array<covfie::array::array<%s, %d>, %d>%s))" % (
                ty, n, n + 1, k.in_t, k.in_t, n + 1, n, ("{" + rows + "}") if n > 1 else ("(" + rows + ")"))
        if kd in Layer.STORAGE:
            return "typename %s::configuration_t%s" % (ty, "{" + ", ".join("%dul" % s for s in L.cfg["sizes"]) + "}" if k.n > 1 else "(%dul)" % L.cfg["sizes"][0])
        if kd in ("array", "probe_array"):
            return "typename %s::configuration_t(%dul)" % (ty, L.cfg["size"])
        if kd == "constant":
            return "typename %s::configuration_t%s" % (ty, ("{" + ", ".join(lit(k.out_t, v) for v in L.cfg["value"]) + "}") if k.m > 1 else "(%s)" % lit(k.out_t, L.cfg["value"][0]))
        if kd == "probe_fn":
            return "typename %s::configuration_t{%dl}" % (ty, L.cfg["salt"])
        return "std::monostate{}"

    def make_expr(self):
        """covfie::field<B>(make_parameter_pack(cfg0, cfg1, ...))"""
        return "covfie::field<%s>(covfie::make_parameter_pack(%s))" % (self.cpp_type(), ", ".join(self.cfg_expr(i) for i in range(len(self.layers))))

    def make_for_expr(self):
        return "covfie::field<%s>(covfie::make_parameter_pack_for<covfie::field<%s>>(%s))" % (self.cpp_type(), self.cpp_type(), ", ".join(self.cfg_expr(i) for i in range(len(self.layers))))


def lit(t, v):
    if t in ("float", "double"):
        import math
        v = float(v)
        if math.isnan(v):
            return "std::numeric_limits<%s>::quiet_NaN()" % t
        if math.isinf(v):
            return "%sstd::numeric_limits<%s>::infinity()" % ("-" if v < 0 else "", t)
        if v != 0 and abs(v) < 1e-40:
            return "%sstd::numeric_limits<%s>::denorm_min()" % ("-" if v < 0 else "", t)
        return "(" + repr(v) + ("f)" if t == "float" else ")")
    if t == "std::size_t":
        return "%dul" % int(v)
    if t == "long" and int(v) == 2**63 - 1:
        return "std::numeric_limits<long>::max()"
    if t == "unsigned":
        return "%du" % int(v)
    if t == "long":
        return "%dl" % int(v)
    return "%d" % int(v)


def storage_len(L):
    sizes = L.cfg["sizes"] if L.cfg else [EXT[a] for a in range(L.k.n)]
    if L.kind == "strided":
        p = 1
        for s in sizes:
            p *= s
        return p
    m = max(sizes)
    s = 1
    while s < m:
        s *= 2
    return s ** len(sizes)


def _morton_index(c):
    n, out = len(c), 0
    for b in range(64 // n):
        for k in range(n):
            out |= ((c[k] >> b) & 1) << (b * n + k)
    return out


def _hilbert_index(side, x, y):
    d, s = 0, side // 2
    while s > 0:
        rx, ry = (1 if x & s else 0), (1 if y & s else 0)
        q = (0 if ry == 0 else 1) if rx == 0 else (2 if ry == 1 else 3)
        d += s * s * q
        if ry == 0:
            if rx == 1:
                x, y = side - 1 - x, side - 1 - y
            x, y = y, x
        s //= 2
    return d


def tight_storage_len(L):
    """largest curve position reached by a coordinate inside the extents, plus one"""
    sizes = L.cfg["sizes"] if L.cfg else [EXT[a] for a in range(L.k.n)]
    if L.kind == "strided" or any(s == 0 for s in sizes):
        return storage_len(L)
    if L.kind == "hilbert":
        side = 1
        while side < max(sizes):
            side *= 2
        return 1 + max(_hilbert_index(side, x, y) for x in range(sizes[0]) for y in range(sizes[1]))
    return 1 + _morton_index([s - 1 for s in sizes])


# ---------------------------------------------------------------------------
# enumeration

def perms_for(n, which):
    base = list(range(n))
    if n == 1:
        return [base]
    rev = base[::-1]
    rot = base[1:] + base[:1]
    out = [rev, rot] if which == "all" else [rev if which % 2 == 0 else rot]
    res = []
    for x in out:
        if x not in res:
            res.append(x)
    return res


def bases(n, m, itype="std::size_t", rtype="float", stype="float", harness=True, bmi=True):
    """innermost parts: list of layer lists (outer..inner)"""
    out = []
    stor = ["strided", "morton_port"] + (["morton_bmi"] if bmi else []) + (["hilbert"] if n == 2 else [])
    prims = [Layer("array", t=stype, m=m)]
    if harness:
        prims.append(Layer("probe_array", t=stype, m=m))
    prims.append(Layer("constant", s="std::size_t", n=1, t=stype, m=m))
    if m == 1:
        prims.append(Layer("identity", s="std::size_t", n=1))
    for s in stor:
        for pr in prims:
            out.append([Layer(s, i=itype, n=n), Layer(pr.kind, **pr.p)])
    # integer-input primitives
    out.append([Layer("constant", s=itype, n=n, t=stype, m=m)])
    if n == m:
        out.append([Layer("identity", s=itype, n=n)])
    if harness:
        out.append([Layer("probe_fn", s=itype, n=n, t=stype, m=m)])
    # real-input primitives
    out.append([Layer("constant", s=rtype, n=n, t=stype, m=m)])
    if n == m:
        out.append([Layer("identity", s=rtype, n=n)])
    if harness:
        out.append([Layer("probe_fn", s=rtype, n=n, t=stype, m=m)])
    return out


def wrappers(kind_below, level, n, variant=0, stype="float"):
    """wrapper layers admissible directly over a layer with kind kind_below. level: 'int' or 'real'"""
    w = [Layer("clamp"), Layer("backup"), Layer("dereference"), Layer("cast", t=("double" if stype == "float" else "float"))]
    for pm in perms_for(n, variant):
        w.append(Layer("shuffle", perm=pm))
    if level == "real":
        w.append(Layer("affine"))
    return w


def clone(layers):
    return [Layer(L.kind, **dict(L.p)) for L in layers]


def with_cfgvar(stack, var):
    return Stack(clone(stack.layers), cfgvar=var)


# ---------------------------------------------------------------------------
# on-disk format description of a stack (for include/vp/format.hpp)
TAGS = {"array": 0xAB010000, "constant": 0xAB010001, "identity": 0xAB010002, "affine": 0xAB020000, "backup": 0xAB020001, "clamp": 0xAB020002,
        "hilbert": 0xAB020004, "morton_bmi": 0xAB020006, "morton_port": 0xAB020006, "strided": 0xAB020010}


def format_cpp(stack, varname):
    rows = []
    for L in stack.layers:
        k, kd = L.k, L.kind
        tag = TAGS.get(kd, 0)
        cfgb, isarr, m = 0, 0, 0
        if kd == "array":
            isarr, m = 1, k.m
        elif kd == "constant":
            cfgb = SIZEOF[k.out_t] * k.m
        elif kd in Layer.STORAGE:
            cfgb = 8 * k.n
        elif kd == "clamp":
            cfgb = 2 * k.n * SIZEOF[k.in_t]
        elif kd == "backup":
            cfgb = 2 * k.n * SIZEOF[k.in_t] + k.m * SIZEOF[k.out_t]
        elif kd == "affine":
            cfgb = k.n * (k.n + 1) * SIZEOF[k.in_t]
        rows.append("{0x%08Xu, %d, %d, %d}" % (tag, cfgb, isarr, m))
    return "static const vp::FLayer %s[] = {%s};" % (varname, ", ".join(rows))


def enumerate_stacks(n, m, maxdepth, itype="std::size_t", rtype="float", stype="float", harness=True, bmi=True, variant=0):
    """All well-kinded stacks up to maxdepth for one (N, M, types) choice."""
    res = []
    for base in bases(n, m, itype, rtype, stype, harness, bmi):
        st0 = Stack(clone(base))
        if not st0.ok:
            continue
        frontier = [st0]
        seen = set()
        while frontier:
            st = frontier.pop()
            key = st.cpp_type()
            if key in seen:
                continue
            seen.add(key)
            res.append(st)
            if st.depth() >= maxdepth:
                continue
            top = st.layers[0]
            k = top.k
            real = is_real(k.in_t)
            has_interp = any(L.kind in Layer.INTERP for L in st.layers)
            cands = []
            if real:
                cands += wrappers(k, "real", k.n, variant, stype)
            else:
                cands += wrappers(k, "int", k.n, variant, stype)
                if not has_interp:
                    cands += [Layer("nn", r=rtype), Layer("linear", r=rtype)]
            for c in cands:
                ns = Stack([Layer(c.kind, **dict(c.p))] + clone(st.layers))
                if ns.ok:
                    frontier.append(ns)
    return res


def coordinate_sensitive(s):
    """the innermost backend's value depends on the coordinate it is queried at (a constant backend hides every
    mistake in the coordinate maps above it)"""
    return s.layers[-1].kind != "constant"


def adjacency_cover(stacks):
    """Greedy subset in which every (layer kind, kind directly beneath) pair that occurs in `stacks` occurs at least once,
    and - wherever such a stack exists - at least once in a stack whose innermost backend is coordinate-sensitive."""
    chosen, chosen_types = [], set()

    def pairs(cands):
        out = set()
        for s in cands:
            ks = [L.kind for L in s.layers]
            for i in range(len(ks) - 1):
                out.add((ks[i], ks[i + 1]))
        return out

    def take(cands, need):
        for s in sorted(cands, key=lambda s: (s.depth(), s.cpp_type())):
            ks = [L.kind for L in s.layers]
            mine = set((ks[i], ks[i + 1]) for i in range(len(ks) - 1))
            if (mine & need or len(ks) == 1) and s.cpp_type() not in chosen_types:
                chosen.append(s)
                chosen_types.add(s.cpp_type())
                need -= mine
        return need

    sens = [s for s in stacks if coordinate_sensitive(s)]
    take(sens, pairs(sens))
    take(stacks, pairs(stacks) - pairs(chosen))
    return chosen


# ---------------------------------------------------------------------------
# size of the non-owning (view) data, to honour field_view's static_assert(sizeof(storage_t) <= 256)

SIZEOF = {"float": 4, "double": 8, "std::size_t": 8, "unsigned": 4, "int": 4, "long": 8}


def _struct(members):
    """members: list of (size, align) in declaration order -> (size, align) of the struct (Itanium ABI, no empty-base tricks)"""
    off, al = 0, 1
    for s, a in members:
        off = (off + a - 1) // a * a
        off += s
        al = max(al, a)
    if off == 0:
        return 1, 1
    return (off + al - 1) // al * al, al


def view_layout(stack, upto=0):
    inner = None
    for L in reversed(stack.layers[upto:]):
        k, kd, p = L.k, L.kind, L.p
        if kd in ("array", "probe_array"):
            cur = _struct([(8, 8), (8, 8)])
        elif kd == "constant":
            cur = (SIZEOF[p["t"]] * p["m"], SIZEOF[p["t"]])
        elif kd == "identity":
            cur = (1, 1)
        elif kd == "probe_fn":
            cur = (8, 8)
        elif kd in Layer.STORAGE:
            cur = _struct([(8 * k.n, 8), inner])
        elif kd == "clamp":
            s = SIZEOF[k.in_t]
            cur = _struct([(s * k.n, s), (s * k.n, s), inner])
        elif kd == "backup":
            s, o = SIZEOF[k.in_t], SIZEOF[k.out_t]
            cur = _struct([(s * k.n, s), (s * k.n, s), (o * k.m, o), inner])
        elif kd == "affine":
            s = SIZEOF[k.in_t]
            cur = _struct([(s * k.n * (k.n + 1), s), inner])
        else:
            cur = _struct([inner])
        inner = cur
    return inner


def view_fits(stack):
    return view_layout(stack)[0] <= 256


# ---------------------------------------------------------------------------
# runtime description for the reference interpreter (include/vp/interp.hpp)

LK = {"array": "LK_ARRAY", "probe_array": "LK_ARRAY", "constant": "LK_CONSTANT", "identity": "LK_IDENTITY", "probe_fn": "LK_PROBE_FN",
      "strided": "LK_STRIDED", "morton_bmi": "LK_MORTON", "morton_port": "LK_MORTON", "hilbert": "LK_HILBERT", "clamp": "LK_CLAMP",
      "backup": "LK_BACKUP", "shuffle": "LK_SHUFFLE", "dereference": "LK_DEREF", "cast": "LK_CAST", "affine": "LK_AFFINE", "nn": "LK_NN",
      "linear": "LK_LINEAR"}
STN = {"float": "ST_FLOAT", "double": "ST_DOUBLE", "std::size_t": "ST_SIZE", "unsigned": "ST_UNSIGNED", "int": "ST_INT", "long": "ST_LONG"}


def desc_cpp(stack, varname):
    rows = []
    for L in stack.layers:
        k, kd = L.k, L.kind
        cfg = []
        if kd == "clamp":
            cfg = L.cfg["min"] + L.cfg["max"]
        elif kd == "backup":
            cfg = L.cfg["min"] + L.cfg["max"] + L.cfg["default"]
        elif kd == "affine":
            cfg = [x for row in L.cfg["A"] for x in row]
        elif kd in Layer.STORAGE:
            cfg = L.cfg["sizes"]
        elif kd == "constant":
            cfg = L.cfg["value"]
        elif kd == "probe_fn":
            cfg = [L.cfg["salt"]]
        elif kd == "shuffle":
            cfg = L.p["perm"]
        rows.append("{vp::%s, %d, %d, vp::%s, vp::%s, {%s}}" % (LK[kd], k.n, k.m, STN[k.in_t], STN[k.out_t], ", ".join(repr(float(x)) for x in cfg) if cfg else "0"))
    return "static const vp::LDesc %s[] = {%s};" % (varname, ",\n    ".join(rows))


def fill_cpp(stack, fieldvar):
    """C++ statements that fill every array / probe_array of the stack with the interpreter's model function."""
    out = []
    for idx, L in enumerate(stack.layers):
        if L.kind in Layer.STORAGE and stack.layers[idx + 1].kind in ("array", "probe_array"):
            chain = fieldvar + ".backend()" + ".get_backend()" * idx
            sizes = ", ".join(repr(float(s)) for s in L.cfg["sizes"])
            out.append("{ static const double sz[] = {%s}; vp::fill_model<typename %s::non_owning_data_t, %d, %d, %s>(typename %s::non_owning_data_t(%s), sz); }" % (
                sizes, stack.cpp_type(idx), L.k.n, L.k.m, L.k.in_t, stack.cpp_type(idx), chain))
    return "\n  ".join(out)


# ---------------------------------------------------------------------------
# sizeof pre-pass: ask the compiler of the tree under test for the real view sizes (the Python model above only predicts them)

def filter_by_real_view_size(ctx, stacks, header, limit=256, per_tu=150):
    """Returns (kept, dropped): stacks whose non_owning_data_t really fits field_view's limit on the current tree.
    Falls back to the size model for stacks whose size could not be obtained."""
    import os, subprocess
    tus = []
    for b in range(0, len(stacks), per_tu):
        chunk = stacks[b:b + per_tu]
        p = os.path.join(ctx.build, "sizeof_%04d.cpp" % (b // per_tu))
        with open(p, "w") as fh:
            fh.write(header + "#include <cstdio>\nint main() {\n")
            for j, s in enumerate(chunk):
                fh.write("  std::printf(\"%d %%zu\\n\", sizeof(typename %s::non_owning_data_t));\n" % (b + j, s.cpp_type()))
            fh.write("  return 0;\n}\n")
        tus.append((p, b, chunk))

    def one(x):
        p, b, chunk = x
        exe = p[:-4]
        ok, log = ctx.compile(p, exe, ["-O0", "-w", "-mbmi2"])
        if not ok:
            return {}
        out = subprocess.run([exe], capture_output=True, text=True).stdout
        return {int(l.split()[0]): int(l.split()[1]) for l in out.splitlines() if len(l.split()) == 2}
    sizes = {}
    for d in ctx.parallel(one, tus):
        sizes.update(d)
    kept, dropped = [], 0
    for i, s in enumerate(stacks):
        real = sizes.get(i)
        fits = (real <= limit) if real is not None else view_fits(s)
        if fits:
            kept.append(s)
        else:
            dropped += 1
    return kept, dropped
