"""Code generation shared by the binary-IO checks C06 / C07 / C08: one struct per serialisable stack + registration."""
import hashlib, os
from vplib import grammar as g
from checks.c13 import HDR, type_variants

HDR_IO = HDR + "#include <limits>\n#include <vp/io.hpp>\n"


def stack_id(s):
    """stable identifier (file name of the golden file)"""
    h = hashlib.sha1(s.cpp_type().encode()).hexdigest()[:8]
    k = s.layers[0].k
    return "%s__N%dM%d_%s" % ("_".join(L.kind for L in s.layers), k.n, k.m, h)


def struct_cpp(i, s):
    B = s.cpp_type()
    arr_idx = [j for j, L in enumerate(s.layers) if L.kind == "array"]
    o = ["struct S%d {" % i, "  using B = %s;" % B]
    if arr_idx:
        ai = arr_idx[0]
        A = s.cpp_type(ai)
        ak = s.layers[ai].k
        o.append("  using T = %s;" % ak.out_t)
        o.append("  static constexpr int array_m = %d;" % ak.m)
    else:
        o.append("  using T = void;")
    o.append("  static constexpr const char * name = \"%s\";" % stack_id(s))
    o.append("  static constexpr const char * key = \"%s\";" % s.short())
    o.append("  static constexpr int depth = %d;" % s.depth())
    o.append("  static const vp::FLayer * fl() { %s return f; }" % g.format_cpp(s, "f"))
    v1, v2, v3, v4 = g.with_cfgvar(s, 1), g.with_cfgvar(s, 2), g.with_cfgvar(s, 3), g.with_cfgvar(s, 4)
    o.append("  static covfie::field<B> make(int var) {")
    o.append("    if (var == 1) return %s;" % v1.make_expr())
    o.append("    if (var == 2) return %s;" % v2.make_expr())
    o.append("    if (var == 3) return %s;" % v3.make_expr())
    o.append("    if (var == 4) return %s;" % v4.make_expr())
    o.append("    if (var == 5) return %s;" % g.with_cfgvar(s, 5).make_expr())
    o.append("    return %s;" % s.make_expr())
    o.append("  }")
    if arr_idx:
        chain = "f.backend()" + ".get_backend()" * ai
        o.append("  static std::vector<T *> cells(const covfie::field<B> & f) {")
        o.append("    std::vector<T *> v; const auto & ao = %s; typename %s::non_owning_data_t av(ao);" % (chain, A))
        o.append("    const std::size_t n = ao.get_configuration()[0];")
        o.append("    for (std::size_t i = 0; i < n; ++i) for (std::size_t j = 0; j < %d; ++j) v.push_back(&av.at(i)[j]);" % ak.m)
        o.append("    return v;")
        o.append("  }")
    st_idx = [j for j, L in enumerate(s.layers) if L.kind in g.Layer.STORAGE]
    if arr_idx and st_idx and st_idx[0] + 1 == arr_idx[0]:
        si = st_idx[0]
        o.append("  static constexpr bool has_lattice = true;")
        o.append("  static std::vector<T> lattice(const covfie::field<B> & f) { return vp::lattice_values<%s>(f.backend()%s); }" % (s.cpp_type(si), ".get_backend()" * si))
    else:
        o.append("  static constexpr bool has_lattice = false;")
    o.append("  static bool configs_equal(const covfie::field<B> & a, const covfie::field<B> & b, int & which) {")
    for idx in range(s.depth()):
        ch = ".backend()" + ".get_backend()" * idx
        o.append("    which = %d; if (!vp::cfg_bits_equal(a%s.get_configuration(), b%s.get_configuration())) return false;" % (idx, ch, ch))
    o.append("    which = -1; return true;")
    o.append("  }")
    o.append("};")
    o.append("static vp::IoReg reg_%d(vp::make_entry<S%d>());" % (i, i))
    return "\n".join(o) + "\n"


def catalogue(tier):
    """serialisable stacks: adjacency cover (quick) / everything to depth 3 + cover at depth 5 (thorough)"""
    thorough = tier == "thorough"
    nms = [(1, 1), (2, 3), (3, 2)] if not thorough else [(1, 1), (2, 3), (3, 2), (2, 2), (3, 3), (1, 4), (4, 1), (4, 4)]
    full3 = [(2, 3), (3, 1)] if thorough else []
    out, seen = [], set()
    for i, (n, m) in enumerate(nms + full3):
        it, rt, st = type_variants(i)
        ss = g.enumerate_stacks(n, m, 5, itype=it, rtype=rt, stype=st, harness=False, variant=i)
        sel = g.adjacency_cover(ss) if i < len(nms) else [s for s in ss if s.depth() <= 3]
        if i == 1 or (thorough and i in (3, 4)):
            # precision twins (C07): the same cover with the storage width and the coordinate precision swapped
            other_st = "float" if st == "double" else "double"
            other_rt = "float" if rt == "double" else "double"
            sel = sel + g.adjacency_cover(g.enumerate_stacks(n, m, 5, itype=it, rtype=other_rt, stype=other_st, harness=False, variant=i))
        for s in sel:
            if not g.view_fits(s) or not s.serialisable():
                continue
            k = s.cpp_type()
            if k not in seen:
                seen.add(k)
                out.append(s)
    return out


def build_binary(ctx, stacks, main_src, flags, name, per_tu=10):
    """compiles generated TUs + the main file to objects in parallel and links them. Returns (exe or None, log)"""
    tus = []
    for b in range(0, len(stacks), per_tu):
        p = os.path.join(ctx.build, "%s_io_%03d.cpp" % (name, b // per_tu))
        with open(p, "w") as fh:
            fh.write(HDR_IO)
            for j, s in enumerate(stacks[b:b + per_tu]):
                fh.write("// %s\n" % s.name())
                fh.write(struct_cpp(b + j, s))
        tus.append(p)
    tus.append(main_src)

    def comp(p):
        obj = os.path.join(ctx.build, name + "_" + os.path.basename(p) + ".o")
        ok, log = ctx.compile(p, obj, list(flags) + ["-c"], timeout=1500)
        return p, obj, ok, log
    res = ctx.parallel(comp, tus)
    bad = [(p, log) for p, obj, ok, log in res if not ok]
    if bad:
        return None, bad
    exe = os.path.join(ctx.build, name + "_io_bin")
    import subprocess
    link = subprocess.run([g_cxx()] + [r[1] for r in res] + [f for f in flags if f.startswith("-fsanitize") or f == "-pthread"] + ["-o", exe], capture_output=True, text=True)
    if link.returncode:
        return None, [("link", link.stderr[-3000:])]
    return exe, []


def g_cxx():
    from vplib import core
    return core.CXX
