"""Shared runner machinery for the covfie checks.

Every check module exposes run(ctx).  The context owns: the repository path
(VERIF_REPO, default /repo), a scratch build directory under /verif/build/<ID>
(wiped at the start of every run, so nothing is ever reused from an older tree),
parallel compilation, execution of harness binaries, violation bookkeeping with
known-findings matching, replay files, and the evidence file.
"""
import concurrent.futures as cf
import hashlib
import json
import os
import shutil
import subprocess
import sys
import time

VERIF = os.path.dirname(os.path.dirname(os.path.abspath(__file__)))
REPO = os.environ.get("VERIF_REPO", "/repo")
JOBS = int(os.environ.get("VERIF_JOBS", "16"))
CXX = os.environ.get("VERIF_CXX", "g++")

BASE_FLAGS = [
    "-std=c++20",
    "-I" + os.path.join(VERIF, "include"),
    "-Wno-deprecated-declarations",
]


def repo_includes(repo=None):
    r = repo or REPO
    return ["-I" + os.path.join(r, "lib/core"), "-I" + os.path.join(r, "lib/cpu")]


def tree_hash(repo=None):
    """sha256 over every file under <repo>/lib - recorded in the evidence."""
    r = repo or REPO
    h = hashlib.sha256()
    for root, dirs, files in sorted(os.walk(os.path.join(r, "lib"))):
        dirs.sort()
        for f in sorted(files):
            p = os.path.join(root, f)
            h.update(os.path.relpath(p, r).encode())
            with open(p, "rb") as fh:
                h.update(fh.read())
    return h.hexdigest()[:16]


class Violation:
    def __init__(self, key, detail, replay=None):
        self.key = key
        self.detail = detail
        self.replay = replay or {}


class Ctx:
    def __init__(self, pid, tier, seed=0):
        self.pid = pid
        self.tier = tier
        self.seed = seed
        self.repo = REPO
        self.t0 = time.time()
        self.deadline_s = float(os.environ.get("VERIF_DEADLINE_S", "1500" if tier == "thorough" else "600"))
        # runs against a scratch copy (mutation audit) get their own build / replay / evidence area so that they can
        # run next to a check of /repo itself
        self.alt = None if os.path.realpath(REPO) == "/repo" else os.path.basename(os.path.normpath(REPO))
        self.build = os.path.join(VERIF, "build", pid) if not self.alt else os.path.join(VERIF, "build", "alt_" + self.alt, pid)
        shutil.rmtree(self.build, ignore_errors=True)
        os.makedirs(self.build, exist_ok=True)
        self.violations = []
        self.notes = []
        self.cov = {}
        self.assumptions = []
        self.level = "exploration"
        self.capped = False

    # ------------------------------------------------------------------ time
    def elapsed(self):
        return time.time() - self.t0

    def time_left(self):
        return self.deadline_s - self.elapsed()

    def out_of_time(self):
        if self.time_left() <= 0:
            self.capped = True
            return True
        return False

    # --------------------------------------------------------------- compile
    def compile(self, src, out, flags=(), defines=(), includes=None, timeout=900, syntax_only=False):
        """Returns (ok, log)."""
        cmd = [CXX] + BASE_FLAGS + (includes if includes is not None else repo_includes(self.repo))
        cmd += list(flags) + ["-D" + d for d in defines]
        if syntax_only:
            cmd += ["-fsyntax-only", src]
        else:
            cmd += [src, "-o", out]
        try:
            p = subprocess.run(cmd, capture_output=True, text=True, timeout=timeout)
        except subprocess.TimeoutExpired:
            return False, "compile timeout: " + " ".join(cmd)
        return p.returncode == 0, (p.stderr or "")[-6000:] + ("" if p.returncode == 0 else "\nCMD: " + " ".join(cmd))

    def parallel(self, fn, items, jobs=None):
        with cf.ThreadPoolExecutor(max_workers=jobs or JOBS) as ex:
            return list(ex.map(fn, items))

    # ------------------------------------------------------------------- run
    def run(self, argv, timeout=600, env=None, stdin=None):
        """Runs a harness. Returns (rc, stdout, stderr). rc=-999 on timeout."""
        e = dict(os.environ)
        if env:
            e.update(env)
        try:
            p = subprocess.run(argv, capture_output=True, text=True, timeout=timeout, env=e, input=stdin,
                               errors="replace")
            return p.returncode, p.stdout, p.stderr
        except subprocess.TimeoutExpired as ex:
            so = ex.stdout.decode(errors="replace") if isinstance(ex.stdout, bytes) else (ex.stdout or "")
            se = ex.stderr.decode(errors="replace") if isinstance(ex.stderr, bytes) else (ex.stderr or "")
            return -999, so, se

    # ------------------------------------------------------------ violations
    def violation(self, key, detail, replay=None):
        self.violations.append(Violation(key, detail, replay))

    def harvest(self, stdout, replay_base=None):
        """Parses the harness line protocol.

        VIOL <json>   -> a violation  {key, detail, case}
        STAT <json>   -> counters to be merged (ints are summed, lists extended)
        Returns the merged stats of this output.
        """
        stats = {}
        for line in stdout.splitlines():
            if line.startswith("VIOL "):
                try:
                    v = json.loads(line[5:])
                except Exception:
                    v = {"key": "unparsable", "detail": line[5:200]}
                rp = dict(replay_base or {})
                rp["case"] = v.get("case")
                self.violation(v.get("key", "?"), v.get("detail", ""), rp)
            elif line.startswith("STAT "):
                try:
                    s = json.loads(line[5:])
                except Exception:
                    continue
                merge_stats(stats, s)
        return stats

    # -------------------------------------------------------------- evidence
    def finish(self):
        """Writes evidence, prints verdict lines, returns the exit code."""
        known = load_known()
        new, knownhits = [], []
        for v in self.violations:
            k = match_known(known, self.pid, v.key)
            (knownhits if k else new).append((v, k))
        rdir = os.path.join(VERIF, "replays", self.pid) if not self.alt else os.path.join(VERIF, "build", "alt_" + self.alt, "replays", self.pid)
        shutil.rmtree(rdir, ignore_errors=True)
        wall = round(self.elapsed(), 3)
        cov = dict(self.cov)
        cov.setdefault("exhaustive", not self.capped)
        if self.capped:
            cov["exhaustive"] = False
            cov["cap_note"] = "deadline of %ss reached; bounds listed under completed_bounds were finished" % self.deadline_s
        cov["tree_hash"] = tree_hash(self.repo)
        cov["repo"] = self.repo
        if self.notes:
            cov["notes"] = self.notes
        ev = {
            "property_id": self.pid,
            "tier": self.tier,
            "seed": self.seed,
            "level": self.level,
            "coverage": cov,
            "assumptions": self.assumptions,
            "wall_s": wall,
            "violations": len(new),
            "known_findings_hit": len(knownhits),
        }
        # runs against a scratch copy (mutation audit) must not overwrite the evidence of /repo
        evdir = os.path.join(VERIF, "evidence") if not self.alt else os.path.join(VERIF, "build", "alt_" + self.alt, "evidence")
        os.makedirs(evdir, exist_ok=True)
        with open(os.path.join(evdir, self.pid + ".json"), "w") as fh:
            json.dump(ev, fh, indent=1, sort_keys=True, default=str)
            fh.write("\n")
        seen = set()
        for v, k in knownhits:
            if k["key"] in seen:
                continue
            seen.add(k["key"])
            print("KNOWN-FINDING: property=%s %s" % (self.pid, k["what"]))
        if new:
            os.makedirs(rdir, exist_ok=True)
            shown = 0
            seenk = set()
            for i, (v, _) in enumerate(new):
                if v.key in seenk and shown >= 3:
                    continue
                if shown >= 25:
                    break
                seenk.add(v.key)
                path = os.path.join(rdir, "v%03d.json" % i)
                with open(path, "w") as fh:
                    json.dump({"property": self.pid, "key": v.key, "detail": v.detail, "replay": v.replay,
                               "tier": self.tier}, fh, indent=1, default=str)
                    fh.write("\n")
                print("VIOLATION property=%s replay=%s" % (self.pid, path))
                print("  key=%s :: %s" % (v.key, str(v.detail)[:400]))
                shown += 1
            print("%s: %d violation(s) (%d shown), wall %.1fs" % (self.pid, len(new), shown, wall))
            return 1
        print("%s %s: held on everything explored; %s; wall %.1fs" % (
            self.pid, self.tier, summarize(cov), wall))
        return 0


def summarize(cov):
    keys = ["evaluations", "distinct_nontrivial", "states", "transitions", "traces_validated_against_impl",
            "schedules", "exhaustive"]
    return " ".join("%s=%s" % (k, cov[k]) for k in keys if k in cov)


def merge_stats(dst, s):
    for k, v in s.items():
        if isinstance(v, bool):
            dst[k] = dst.get(k, True) and v
        elif isinstance(v, (int, float)):
            dst[k] = dst.get(k, 0) + v
        elif isinstance(v, list):
            dst.setdefault(k, [])
            for x in v:
                if len(dst[k]) < 12:
                    dst[k].append(x)
        elif isinstance(v, dict):
            dst.setdefault(k, {})
            merge_stats(dst[k], v)
        else:
            dst[k] = v
    return dst


def load_known():
    p = os.path.join(VERIF, "known_findings.json")
    if not os.path.exists(p):
        return {"findings": [], "fixed": []}
    with open(p) as fh:
        return json.load(fh)


def match_known(known, pid, key):
    for f in known.get("findings", []):
        if f["property"] == pid and f["key"] == key:
            return f
    return None


def main(checks):
    import argparse
    ap = argparse.ArgumentParser()
    ap.add_argument("pid")
    ap.add_argument("--tier", default=os.environ.get("VERIF_TIER", "quick"), choices=["quick", "thorough"])
    ap.add_argument("--replay")
    a = ap.parse_args()
    if a.pid not in checks:
        print("unknown property", a.pid)
        return 2
    seed = int(os.environ.get("VERIF_SEED", "0") or 0)
    mod = checks[a.pid]
    if a.replay:
        with open(a.replay) as fh:
            rp = json.load(fh)
        ctx = Ctx(a.pid + "_replay", rp.get("tier", "quick"), seed)
        ctx.pid = a.pid
        rc = mod.replay(ctx, rp)
        return rc
    ctx = Ctx(a.pid, a.tier, seed)
    try:
        mod.run(ctx)
    except Exception as ex:  # a crash of the machinery is not a verdict about covfie
        import traceback
        traceback.print_exc()
        print("%s: INTERNAL ERROR in the check machinery: %r" % (a.pid, ex))
        return 3
    return ctx.finish()


# ---------------------------------------------------------------------------
# generic "compile N harness configurations in parallel, run them in parallel"

class Job:
    def __init__(self, name, src, flags=(), defines=(), argv=(), timeout=900, env=None, expect_compile=True,
                 key_prefix=None, runner=None, distinct=True):
        self.name = name
        self.src = src
        self.flags = list(flags)
        self.defines = list(defines)
        self.argv = [str(a) for a in argv]
        self.timeout = timeout
        self.env = env or {}
        self.exe = None
        self.ok = None
        self.log = ""
        self.rc = None
        self.stdout = ""
        self.stderr = ""
        self.stats = {}
        self.key_prefix = key_prefix or name
        self.runner = list(runner or [])   # e.g. ["valgrind", "-q", ...]
        self.distinct = distinct           # False: a re-run of cases another job already counts as distinct

    def replay_base(self):
        return {"job": self.name, "src": os.path.relpath(self.src, VERIF), "flags": self.flags,
                "defines": self.defines, "argv": self.argv, "env": self.env, "runner": self.runner}


SAN_ENV = {
    "ASAN_OPTIONS": "detect_leaks=1:abort_on_error=0:allocator_may_return_null=1:max_allocation_size_mb=2048",
    "UBSAN_OPTIONS": "print_stacktrace=1:halt_on_error=1",
}


def first_diag(log):
    for line in log.splitlines():
        if "error" in line or "Error" in line:
            return line.strip()[:300]
    return log.strip()[:300]


def build_and_run(ctx, jobs, merge_into=None, compile_fail_is_violation=True):
    """Compiles and runs all jobs. Harvests VIOL/STAT lines. Returns merged stats."""
    # jobs with identical (source, flags, defines) share one binary
    uniq = {}
    for j in jobs:
        uniq.setdefault((j.src, tuple(j.flags), tuple(j.defines)), []).append(j)
    skipped = []
    def comp(group):
        j0 = group[0]
        if ctx.out_of_time():
            # global deadline: what has not been started is reported as not covered, never as a failure
            for j in group:
                j.exe, j.ok, j.log = None, None, "skipped: deadline"
                skipped.append(j)
            return group
        exe = os.path.join(ctx.build, j0.name.replace("/", "_"))
        ok, log = ctx.compile(j0.src, exe, j0.flags, j0.defines)
        for j in group:
            j.exe, j.ok, j.log = exe, ok, log
        return group
    ctx.parallel(comp, list(uniq.values()))
    if skipped:
        ctx.cov["jobs_skipped_at_deadline"] = len(skipped)
        ctx.cov["jobs_total"] = len(jobs)
    jobs = [j for j in jobs if j.ok is not None]
    runnable = []
    for j in jobs:
        if not j.ok:
            if compile_fail_is_violation:
                logp = os.path.join(ctx.build, j.name.replace("/", "_") + ".compile.log")
                with open(logp, "w") as fh:
                    fh.write(j.log)
                rb = j.replay_base()
                rb["compile_log"] = j.log[-3000:]
                ctx.violation("compile:" + j.key_prefix, "harness configuration does not compile against the tree: "
                              + first_diag(j.log), rb)
        else:
            runnable.append(j)

    def runit(j):
        env = dict(SAN_ENV)
        env.update(j.env)
        j.rc, j.stdout, j.stderr = ctx.run(j.runner + [j.exe] + j.argv, timeout=j.timeout, env=env)
        return j
    ctx.parallel(runit, runnable)
    total = merge_into if merge_into is not None else {}
    for j in runnable:
        j.stats = ctx.harvest(j.stdout, j.replay_base())
        st = dict(j.stats)
        if not j.distinct:
            st["distinct_nontrivial"] = 0
        merge_stats(total, st)
        if j.rc == -999:
            rb = j.replay_base()
            ctx.violation("timeout:" + j.key_prefix, "harness did not finish within %ss" % j.timeout, rb)
        elif j.rc != 0:
            rb = j.replay_base()
            rb["stderr_tail"] = j.stderr[-3000:]
            ctx.violation("crash:" + j.key_prefix, "harness exited with status %s: %s" % (j.rc, sanitizer_summary(j.stderr)), rb)
        elif "STAT " not in j.stdout:
            ctx.violation("nostat:" + j.key_prefix, "harness produced no STAT line", j.replay_base())
    return total


def sanitizer_summary(err):
    for line in err.splitlines():
        if "SUMMARY:" in line or "runtime error:" in line or "Assertion" in line or "ERROR: AddressSanitizer" in line:
            return line.strip()[:300]
    t = err.strip().splitlines()
    return (t[-1] if t else "")[:300]


def generic_replay(ctx, rp):
    """Re-executes the single job recorded in a replay file (rebuilds from the current tree)."""
    r = rp.get("replay", {})
    if "src" not in r:
        print("replay file carries no job description")
        return 2
    j = Job(r.get("job", "replay"), os.path.join(VERIF, r["src"]), r.get("flags", []), r.get("defines", []),
            r.get("argv", []), env=r.get("env"), runner=r.get("runner"))
    if r.get("case"):
        j.env = dict(j.env)
        j.env["VP_ONLY_CASE"] = str(r["case"])
    build_and_run(ctx, [j])
    print(j.stdout[-4000:])
    print(j.stderr[-4000:], file=sys.stderr)
    bad = [v for v in ctx.violations]
    for v in bad:
        print("REPLAYED VIOLATION key=%s :: %s" % (v.key, v.detail))
    return 1 if bad else 0


def set_generic_cov(ctx, total, rule, extra=None):
    ctx.cov["evaluations"] = int(total.get("evaluations", 0))
    ctx.cov["distinct_nontrivial"] = int(total.get("distinct_nontrivial", 0))
    ctx.cov["rule"] = rule
    ctx.cov["samples"] = total.get("samples", [])[:10] or ["(none)"]
    if "groups" in total:
        ctx.cov["groups"] = total["groups"]
    for k, v in total.items():
        if k not in ("evaluations", "distinct_nontrivial", "samples", "groups", "violations", "states", "transitions", "traces"):
            ctx.cov[k] = v
    if extra:
        ctx.cov.update(extra)
