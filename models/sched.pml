/* Promela model of the cooperative hand-off scheduler in include/vp/sched.hpp (engine E5), including the
 * instrumentation hooks that may fire at any instruction of a worker (function-entry / basic-block callbacks).
 * Checked: (1) at most one thread executes hook-visible code at any time (mutual exclusion of the shared
 * scheduling-point cache and of the code under test), (2) no deadlock of the protocol itself, (3) every execution
 * ends with all workers finished.  -DNOBUSY removes the tl_busy guard and reproduces the fault found in section 12
 * of DESIGN.md (a hook firing after the turn has been handed over). */
#define NW 2          /* workers */
#define POINTS 2      /* scheduling points per worker body */
#define MAIN 255

byte turn = MAIN;
byte state[NW];       /* 0 ready, 1 at point, 2 finished */
bool act[NW];      /* tl_active */
bool busy[NW];        /* tl_busy */
byte inhook = 0;      /* number of threads currently inside hook-visible code */

inline hook(i) {
    /* an instrumentation callback may fire here; it touches shared state only if the guards allow it */
    if
    :: (act[i]
#ifndef NOBUSY
        && !busy[i]
#endif
       ) -> inhook++; assert(inhook <= 1); inhook--
    :: else -> skip
    fi
}

proctype worker(byte i) {
    byte k = 0;
    (turn == i);                    /* wait_turn(i) */
    act[i] = true;
    do
    :: k < POINTS ->
        hook(i);                    /* code under test runs, callbacks fire */
        /* Sched::point() */
        busy[i] = true;
        state[i] = 1;
        hook(i);                    /* callbacks inside point() before the hand-over */
        turn = MAIN;                /* give(MAIN) */
        hook(i);                    /* callbacks AFTER the turn was released (spinning in wait_turn) */
        (turn == i);                /* wait_turn(i) */
        busy[i] = false;
        k++
    :: else -> break
    od;
    hook(i);
    act[i] = false;
    state[i] = 2;
    turn = MAIN
}

proctype explorer() {
    byte j;
    do
    :: (turn == MAIN) ->
        if
        :: (state[0] != 2) -> j = 0
        :: (state[1] != 2) -> j = 1
        :: (state[0] == 2 && state[1] == 2) -> break
        fi;
        turn = j;                   /* step(j): give(j); wait_turn(MAIN) */
        (turn == MAIN)
    od;
    assert(state[0] == 2 && state[1] == 2)
}

init {
    atomic { run worker(0); run worker(1); run explorer() }
}
